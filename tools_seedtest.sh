#!/bin/sh
# usage: tools_seedtest.sh <patch.diff> <ID> [tier]   -- apply a seeded change to /repo, run the check, undo
P=$1; ID=$2; TIER=${3:-quick}
cd /repo && git apply "$P" || { echo "APPLY FAILED"; exit 9; }
cd /verif && ./check $ID --tier $TIER --no-evidence; rc=$?
git -C /repo checkout -- . 
echo "seedtest $P $ID -> exit $rc"
