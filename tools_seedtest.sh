#!/bin/sh
# usage: tools_seedtest.sh <patch.diff> <ID> [tier]   -- apply a seeded change to /repo, run the check, undo (always)
P=$1; ID=$2; TIER=${3:-quick}
trap 'git -C /repo checkout -- . ' EXIT INT TERM
cd /repo && git apply "$P" || { echo "APPLY FAILED"; exit 9; }
cd /verif && timeout ${SEED_TIMEOUT:-600} ./check $ID --tier $TIER --no-evidence; rc=$?
echo "seedtest $P $ID -> exit $rc"
