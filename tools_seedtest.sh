#!/bin/sh
# usage: tools_seedtest.sh <patch.diff> <ID> [tier]   -- apply a seeded change to a repository tree, run the check, undo (always)
# REPO_TREE selects the tree (default /repo); with another tree the check is pointed at it through PLOTINK_REPO.
P=$1; ID=$2; TIER=${3:-quick}; R=${REPO_TREE:-/repo}
trap 'git -C $R checkout -- . ' EXIT INT TERM
cd $R && git apply "$P" || { echo "APPLY FAILED"; exit 9; }
cd /verif && PLOTINK_REPO=$R timeout ${SEED_TIMEOUT:-600} ./check $ID --tier $TIER --no-evidence; rc=$?
echo "seedtest $P $ID -> exit $rc"
