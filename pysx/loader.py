"""Load the repository's *current* source text into private module objects whose globals can
be rebound to shims.  Nothing in /repo is modified; the function bodies executed are compiled
from the files as they are on disk at the time of the run."""
import ast
import hashlib
import importlib
import os
import sys
import types

REPO = os.environ.get("PLOTINK_REPO", "/repo")


def repo_file(modname):
    return os.path.join(REPO, "plotink", modname + ".py")


def dep_file(dotted):
    """Source file of a dependency module (e.g. ink_extensions.bezmisc)."""
    spec = importlib.util.find_spec(dotted)
    return spec.origin


_SRC_CACHE = {}


def read_source(path):
    if path not in _SRC_CACHE:
        with open(path, "r", encoding="utf-8") as f:
            _SRC_CACHE[path] = f.read()
    return _SRC_CACHE[path]


_CODE_CACHE = {}

STR_METHODS = {"startswith", "endswith", "split", "rsplit", "find", "rfind", "index", "replace", "join", "strip", "lstrip",
               "rstrip", "count", "partition", "format"}


class _StrOps(ast.NodeTransformer):
    """Source-to-source step applied when a repository module is shim-loaded.  Dict and set *displays*
    (``{...}``) build containers that compare keys by (possibly symbolic) equality instead of hashing
    (pysx/containers.py), so that memo tables keyed by symbolic values are analysed symbolically; ``import re``
    binds the symbolic regular-expression engine.  Further: ``x.startswith(y)`` (and
    the other str methods above) becomes ``pysx__m(x, 'startswith', y)`` and ``a in b`` becomes
    ``pysx__in(a, b)``.  Both helpers behave exactly like the original expression unless a *real* str
    receives a symbolic string argument (which CPython's C implementation would reject with TypeError);
    in that case the receiver is lifted to a symbolic string first.  Nothing else is rewritten."""

    def visit_Call(self, node):
        self.generic_visit(node)
        f = node.func
        if isinstance(f, ast.Attribute) and f.attr in STR_METHODS and not any(isinstance(a, ast.Starred) for a in node.args):
            new = ast.Call(func=ast.Name(id="pysx__m", ctx=ast.Load()),
                           args=[f.value, ast.Constant(value=f.attr)] + node.args, keywords=node.keywords)
            return ast.copy_location(new, node)
        return node

    def visit_Import(self, node):
        # ``import re`` binds the symbolic-string aware stand-in (pysx/reshim.py); everything else is untouched
        keep, out = [], []
        for al in node.names:
            if al.name == "re":
                out.append(ast.copy_location(ast.Assign(targets=[ast.Name(id=al.asname or "re", ctx=ast.Store())],
                                                        value=ast.Name(id="pysx__re", ctx=ast.Load())), node))
            else:
                keep.append(al)
        if not out:
            return node
        if keep:
            out.insert(0, ast.copy_location(ast.Import(names=keep), node))
        return out

    def visit_Dict(self, node):
        self.generic_visit(node)
        if any(k is None for k in node.keys):        # ``**mapping`` unpacking: leave alone
            return node
        pairs = ast.List(elts=[ast.Tuple(elts=[k, v], ctx=ast.Load()) for k, v in zip(node.keys, node.values)], ctx=ast.Load())
        return ast.copy_location(ast.Call(func=ast.Name(id="pysx__dict", ctx=ast.Load()), args=[pairs], keywords=[]), node)

    def visit_Set(self, node):
        self.generic_visit(node)
        if any(isinstance(e, ast.Starred) for e in node.elts):
            return node
        return ast.copy_location(ast.Call(func=ast.Name(id="pysx__set", ctx=ast.Load()),
                                          args=[ast.List(elts=list(node.elts), ctx=ast.Load())], keywords=[]), node)

    def visit_Compare(self, node):
        self.generic_visit(node)
        if len(node.ops) == 1 and isinstance(node.ops[0], (ast.In, ast.NotIn)):
            call = ast.Call(func=ast.Name(id="pysx__in", ctx=ast.Load()), args=[node.left, node.comparators[0]], keywords=[])
            call = ast.copy_location(call, node)
            if isinstance(node.ops[0], ast.NotIn):
                return ast.copy_location(ast.UnaryOp(op=ast.Not(), operand=call), node)
            return call
        return node


def _pysx_m(obj, name, *args, **kw):
    if isinstance(obj, str):
        from .strs import SymStr, elems
        if name == "join" and len(args) == 1 and not isinstance(args[0], (str, tuple, list, SymStr)):
            args = (list(args[0]),)            # a generator / other iterable: look at the items once
        if any(isinstance(a, SymStr) or (isinstance(a, (tuple, list)) and any(isinstance(x, SymStr) for x in a))
               for a in args):
            if name == "format":
                return getattr(obj, name)(*args, **kw)
            obj = SymStr(elems(obj))
    return getattr(obj, name)(*args, **kw)


def _pysx_in(a, b):
    if isinstance(b, str):
        from .strs import SymStr, elems
        if isinstance(a, SymStr):
            return a in SymStr(elems(b))
    return a in b


def compile_transformed(path):
    tree = ast.parse(read_source(path), filename=path)
    tree = _StrOps().visit(tree)
    ast.fix_missing_locations(tree)
    return compile(tree, path, "exec")


def load_source(path, fullname, package, overrides=None, pre=None, siblings=None):
    """Compile and execute the file at path into a fresh module object named fullname, then rebind
    the given global names.  pre: names bound *before* execution (seen by module-level code).
    siblings: {submodule name: module} installed in sys.modules / on the package while the module
    body runs, so that ``from . import x`` (e.g. a base class) resolves to a shim-loaded module."""
    if path not in _CODE_CACHE:
        _CODE_CACHE[path] = compile_transformed(path)
    code = _CODE_CACHE[path]
    mod = types.ModuleType(fullname)
    mod.__file__ = path
    mod.__package__ = package
    mod.__dict__["pysx__m"] = _pysx_m
    mod.__dict__["pysx__in"] = _pysx_in
    from .containers import SymDict, SymSet
    mod.__dict__["pysx__dict"] = SymDict
    mod.__dict__["pysx__set"] = SymSet
    from .reshim import ReShim
    mod.__dict__["pysx__re"] = ReShim()
    if pre:
        mod.__dict__.update(pre)
    saved = sys.modules.get(fullname)
    restore = []
    if siblings:
        pkg = importlib.import_module(package)
        for name, m in siblings.items():
            full = package + "." + name
            importlib.import_module(full)      # make sure the genuine one is imported first
            restore.append((full, sys.modules.get(full), name, getattr(pkg, name, None)))
            sys.modules[full] = m
            setattr(pkg, name, m)
    try:
        exec(code, mod.__dict__)
    finally:
        if saved is not None:
            sys.modules[fullname] = saved
        if siblings:
            pkg = importlib.import_module(package)
            for full, old_mod, name, old_attr in restore:
                if old_mod is not None:
                    sys.modules[full] = old_mod
                if old_attr is not None:
                    setattr(pkg, name, old_attr)
    if overrides:
        mod.__dict__.update(overrides)
    return mod


def ensure_repo_on_path():
    if sys.path[0] != REPO:
        sys.path.insert(0, REPO)
    # make sure an already imported plotink comes from REPO
    m = sys.modules.get("plotink")
    if m is not None and not os.path.abspath(m.__path__[0]).startswith(os.path.abspath(REPO)):
        for k in [k for k in sys.modules if k == "plotink" or k.startswith("plotink.")]:
            del sys.modules[k]


def load_plotink(modname, overrides=None, pre=None, siblings=None):
    ensure_repo_on_path()
    return load_source(repo_file(modname), "plotink." + modname, "plotink", overrides, pre, siblings)


def load_dep(dotted, overrides=None):
    return load_source(dep_file(dotted), dotted, dotted.rpartition(".")[0], overrides)


def native(modname):
    """The unshimmed module, imported normally from REPO (for replay)."""
    ensure_repo_on_path()
    return importlib.import_module("plotink." + modname)


def function_sources(path, names=None):
    """{qualified name: sha256 of source segment} for functions/methods defined in the file."""
    src = read_source(path)
    tree = ast.parse(src)
    out = {}

    def visit(node, prefix):
        for ch in ast.iter_child_nodes(node):
            if isinstance(ch, (ast.FunctionDef, ast.AsyncFunctionDef)):
                q = prefix + ch.name
                seg = ast.get_source_segment(src, ch) or ""
                out[q] = hashlib.sha256(seg.encode()).hexdigest()[:16]
            elif isinstance(ch, ast.ClassDef):
                visit(ch, prefix + ch.name + ".")

    visit(tree, "")
    if names is not None:
        out = {k: v for k, v in out.items() if k in names or k.split(".")[-1] in names}
    return out


def encoded(modname, names):
    p = repo_file(modname)
    return {"%s.%s" % (modname, k): v for k, v in function_sources(p, names).items()}


def encoded_dep(dotted, names):
    p = dep_file(dotted)
    return {"%s.%s" % (dotted, k): v for k, v in function_sources(p, names).items()}
