"""Dict / set stand-ins for ``{...}`` displays in shim-loaded modules: keys are compared by equality
(which may be symbolic and then forks the path) in insertion order instead of being hashed, so a table
keyed by symbolic values keeps them symbolic.  Behaviour on concrete keys is that of dict / set."""
from collections.abc import MutableMapping, MutableSet


def _eq_term(a, b):
    """equality of two keys as one Boolean: a Python bool, or a z3 term built without forking (tuples/lists are
    compared element-wise and conjoined, so that one lookup forks once per stored key, not once per element)"""
    import z3
    from .values import SymInt, SymQ, SymReal, SymBool
    from .strs import SymStr
    if isinstance(a, (tuple, list)) and isinstance(b, (tuple, list)):
        if type(a) is not type(b) or len(a) != len(b):
            return False
        parts = []
        for x, y in zip(a, b):
            t = _eq_term(x, y)
            if t is False:
                return False
            if t is not True:
                parts.append(t)
        return True if not parts else (z3.And(parts) if len(parts) > 1 else parts[0])
    if isinstance(a, SymStr) or isinstance(b, SymStr):
        if isinstance(a, SymStr) and isinstance(b, (str, SymStr)):
            return a.eq_term(b)
        if isinstance(b, SymStr) and isinstance(a, str):
            return b.eq_term(a)
        return False
    if isinstance(a, (SymInt, SymQ, SymReal, SymBool)) or isinstance(b, (SymInt, SymQ, SymReal, SymBool)):
        try:
            r = (a == b)
        except TypeError:
            return False
        if isinstance(r, SymBool):
            return r.t
        return bool(r)
    try:
        return bool(a == b)
    except TypeError:
        return False


def _same(a, b):
    t = _eq_term(a, b)
    if isinstance(t, bool):
        return t
    from . import engine
    return engine.cur().branch(t)


class SymDict(MutableMapping):
    def __init__(self, pairs=()):
        self._k, self._v = [], []
        if isinstance(pairs, (dict, SymDict)):
            pairs = list(pairs.items())
        for k, v in pairs:
            self[k] = v

    def _find(self, key):
        for i, k in enumerate(self._k):
            if k is key or _same(key, k):
                return i
        return -1

    def __getitem__(self, key):
        i = self._find(key)
        if i < 0:
            raise KeyError(key)
        return self._v[i]

    def __setitem__(self, key, value):
        i = self._find(key)
        if i < 0:
            self._k.append(key)
            self._v.append(value)
        else:
            self._v[i] = value

    def __delitem__(self, key):
        i = self._find(key)
        if i < 0:
            raise KeyError(key)
        del self._k[i]
        del self._v[i]

    def __contains__(self, key):
        return self._find(key) >= 0

    def __iter__(self):
        return iter(list(self._k))

    def __len__(self):
        return len(self._k)

    def __repr__(self):
        return "SymDict(%r)" % (list(zip(self._k, self._v)),)

    def copy(self):
        return SymDict(list(zip(self._k, self._v)))


class SymSet(MutableSet):
    def __init__(self, items=()):
        self._k = []
        for x in items:
            self.add(x)

    def _find(self, key):
        for i, k in enumerate(self._k):
            if k is key or _same(key, k):
                return i
        return -1

    def __contains__(self, key):
        return self._find(key) >= 0

    def __iter__(self):
        return iter(list(self._k))

    def __len__(self):
        return len(self._k)

    def add(self, key):
        if self._find(key) < 0:
            self._k.append(key)

    def discard(self, key):
        i = self._find(key)
        if i >= 0:
            del self._k[i]

    def copy(self):
        return SymSet(self._k)

    def __repr__(self):
        return "SymSet(%r)" % (self._k,)

    def __or__(self, other):
        return SymSet(list(self._k) + list(other))

    __ror__ = __or__

    def __ior__(self, other):
        for x in other:
            self.add(x)
        return self

    def update(self, other):
        for x in other:
            self.add(x)
