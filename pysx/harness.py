"""Common driver for the per-property checks: argument parsing, 16-way distribution of cases and
sub-trees, replay of counterexamples on the unmodified code, known findings, evidence files."""
import argparse
import json
import multiprocessing as mp
import os
import sys
import time
import traceback

from . import engine

VERIF = os.path.dirname(os.path.dirname(os.path.abspath(__file__)))
EXIT_OK, EXIT_VIOLATION, EXIT_HARNESS = 0, 1, 3


class CheckBase:
    pid = "C00"
    title = ""
    bounds = {}
    outside = []
    stubs = []
    lemmas = []
    assumptions = []

    def functions_encoded(self):
        return {}

    def cases(self, tier):
        return [{"label": "all"}]

    def config(self, tier, case):
        return engine.Config()

    def harness(self, run, case):
        raise NotImplementedError

    def replay(self, cex):
        """Run the counterexample on the unmodified module.  Return a dict describing the observed
        failure if it reproduces, else None."""
        raise NotImplementedError

    def validate(self, tier, seed):
        """Translator validation; returns number of concrete traces on which the shim-loaded code and
        the native code agreed.  Raises AssertionError on disagreement."""
        return 0

    def expected_reach(self, tier):
        return []

    def finding_key(self, cex, observed):
        """Short description used in KNOWN-FINDING / VIOLATION lines."""
        return "%s inputs=%s" % (cex["obligation"], json.dumps(cex["inputs"], sort_keys=True))


_CHECK = [None]
_TIER = ["quick"]


def load_known(pid):
    p = os.path.join(VERIF, "known_findings.json")
    if not os.path.exists(p):
        return {}
    data = json.load(open(p))
    return {f["id"]: f for f in data.get("findings", []) if f.get("property") == pid}


def active_findings(pid):
    """ids of findings that are listed (status 'finding'); 'fixed' entries suppress nothing."""
    return {k for k, f in load_known(pid).items() if f.get("status") == "finding"}


def _worker(task):
    import faulthandler, signal
    try:
        faulthandler.register(signal.SIGUSR1, all_threads=False)    # kill -USR1 <pid> prints the Python stack
    except Exception:
        pass
    kind, case, root, split_depth = task
    chk = _CHECK[0]
    tier = _TIER[0]
    t0 = time.time()
    try:
        if kind == "validate":
            n = chk.validate(tier, case)
            return ("validate", n, None, [], time.time() - t0)
        cfg = chk.config(tier, case)
        ex = engine.Explorer(lambda run: chk.harness(run, case), cfg, case_label=case.get("label"),
                             split_depth=split_depth)
        st = ex.explore(root)
        return ("case", st, case, ex.roots, time.time() - t0)
    except BaseException:
        return ("error", traceback.format_exc(), case, [], time.time() - t0)


def run_check(chk, argv=None):
    ap = argparse.ArgumentParser()
    ap.add_argument("--tier", default=os.environ.get("VERIF_TIER", "quick"), choices=["quick", "thorough"])
    ap.add_argument("--replay", default=None)
    ap.add_argument("--jobs", type=int, default=int(os.environ.get("VERIF_JOBS", "16")))
    ap.add_argument("--only", default=None, help="substring filter on case labels (debugging)")
    ap.add_argument("--no-evidence", action="store_true")
    args = ap.parse_args(argv)
    seed = int(os.environ.get("VERIF_SEED", "0") or 0)
    pid = chk.pid

    if args.replay:
        cex = json.load(open(args.replay))
        obs = chk.replay(cex)
        if obs:
            print("REPRODUCED property=%s %s" % (pid, json.dumps(obs, default=str)[:2000]))
            print("VIOLATION property=%s replay=%s" % (pid, args.replay))
            return EXIT_VIOLATION
        print("not reproduced on the current tree: property=%s %s" % (pid, args.replay))
        return EXIT_OK

    t_start = time.time()
    _CHECK[0] = chk
    _TIER[0] = args.tier
    cases = chk.cases(args.tier)
    if args.only:
        cases = [c for c in cases if args.only in c.get("label", "")]
    tasks = [("validate", seed, None, None)] + [("case", c, None, c.get("split_depth")) for c in cases]
    total = engine.Stats()
    errors = []
    n_validated = 0
    per_case = []
    ctx = mp.get_context("fork")
    jobs = max(1, min(args.jobs, len(tasks)))
    rounds = 0
    while tasks:
        rounds += 1
        next_tasks = []
        done = 0
        t_last = time.time()
        with ctx.Pool(processes=max(1, min(args.jobs, len(tasks)))) as pool:
            for res in pool.imap_unordered(_worker, tasks, chunksize=1):
                done += 1
                if os.environ.get("VERIF_PROGRESS") and time.time() - t_last > 30:
                    t_last = time.time()
                    sys.stderr.write("[progress %s round %d: %d/%d tasks, %d paths, %.0fs]\n" % (pid, rounds, done, len(tasks), total.paths, time.time() - t_start))
                    sys.stderr.flush()
                kind = res[0]
                if kind == "validate":
                    n_validated += res[1]
                elif kind == "error":
                    errors.append((res[2], res[1]))
                else:
                    _k, st, case, roots, dt = res
                    total.merge(st)
                    per_case.append({"case": case.get("label"), "paths": st.paths, "s": round(dt, 2)})
                    seen = set()
                    for r in roots:
                        key = tuple(r)
                        if key not in seen:
                            seen.add(key)
                            next_tasks.append(("case", case, r, None))
        tasks = next_tasks

    # ---- replay counterexamples on the unmodified code ------------------------------------------
    active = active_findings(pid)
    violations = []
    known_hits = {}
    harness_errors = list(errors)
    os.makedirs(os.path.join(VERIF, "replays", pid), exist_ok=True)
    replayed = 0
    soft_unreproduced = []
    seen_keys = set()
    for cex in total.cex:
        key = (cex["obligation"], cex.get("finding"), json.dumps(cex["inputs"], sort_keys=True, default=str))
        if key in seen_keys:
            continue
        seen_keys.add(key)
        try:
            obs = chk.replay(cex)
            if not obs and cex.get("soft"):
                # rounding-dependent counterexample: the model leaves the direction of the real rounding
                # error open, so the other candidate inputs found for the same query are replayed as well
                for alt in cex.get("alternatives") or []:
                    c2 = dict(cex, inputs=alt)
                    obs = chk.replay(c2)
                    replayed += 1
                    if obs:
                        cex["first_candidate"] = cex["inputs"]
                        cex["inputs"] = alt
                        break
        except BaseException:
            obs = None
            harness_errors.append((cex.get("case"), "replay crashed:\n" + traceback.format_exc()))
            continue
        replayed += 1
        fid = cex.get("finding")
        if not obs:
            if cex.get("soft"):
                soft_unreproduced.append(cex)
                continue
            harness_errors.append((cex.get("case"),
                                   "counterexample did not reproduce on the real code: %s" % json.dumps(cex, default=str)[:1500]))
            continue
        cex["observed"] = obs
        if fid is not None and fid in active:
            known_hits.setdefault(fid, cex)
        else:
            violations.append(cex)

    # ---- vacuity --------------------------------------------------------------------------------
    missing = [l for l in chk.expected_reach(args.tier) if not total.reach.get(l)] if not args.only else []

    # ---- report ---------------------------------------------------------------------------------
    wall = time.time() - t_start
    known = load_known(pid)
    for fid, cex in sorted(known_hits.items()):
        print("KNOWN-FINDING: property=%s %s: %s [example %s]" % (
            pid, fid, known[fid].get("what", ""), json.dumps(cex["inputs"], sort_keys=True, default=str)[:300]))
    vio_paths = []
    for i, cex in enumerate(violations[:20]):
        p = os.path.join(VERIF, "replays", pid, "%s_%d.json" % (args.tier, i))
        with open(p, "w") as f:
            json.dump(cex, f, indent=1, default=str)
        vio_paths.append(p)
        print("VIOLATION property=%s replay=%s" % (pid, p))
        print("  obligation=%s inputs=%s observed=%s%s" % (cex["obligation"], json.dumps(cex["inputs"], sort_keys=True, default=str)[:400],
                                                            json.dumps(cex.get("observed"), default=str)[:600],
                                                            (" info=" + json.dumps(cex["info"], default=str)[:300]) if cex.get("info") else ""))
    inconclusive = total.ob_unknown
    if inconclusive or total.truncated or soft_unreproduced:
        print("INCONCLUSIVE property=%s unknown_obligations=%d truncated_paths=%d model_side_conditions_not_reproduced=%d" % (
            pid, inconclusive, total.truncated, len(soft_unreproduced)))
        for cex in soft_unreproduced[:3]:
            print("  side-condition %s inputs=%s" % (cex["obligation"], json.dumps(cex["inputs"], default=str)[:300]))
    total.notes.extend("side-condition not reproduced: %s %s" % (c["obligation"], json.dumps(c["inputs"], default=str)[:200])
                       for c in soft_unreproduced[:5])
    for case, msg in harness_errors[:10]:
        print("HARNESS-ERROR property=%s case=%s\n%s" % (pid, case, msg))
    if missing:
        print("VACUITY property=%s: reachability witnesses missing for %s" % (pid, missing))

    if not args.no_evidence:
        write_evidence(chk, args.tier, seed, total, n_validated, wall, violations, known_hits, harness_errors,
                       missing, per_case, replayed)
    status = EXIT_OK
    if violations:
        status = EXIT_VIOLATION
    elif harness_errors or missing:
        status = EXIT_HARNESS
    print("%s %s tier=%s paths=%d obligations: unsat=%d sat=%d unknown=%d feas_queries=%d (unknown %d) validated=%d wall=%.1fs -> exit %d" % (
        pid, chk.title, args.tier, total.paths, total.ob_unsat, total.ob_sat, total.ob_unknown, total.feas_queries, total.feas_unknown,
        n_validated, wall, status))
    return status


def write_evidence(chk, tier, seed, st, n_validated, wall, violations, known_hits, harness_errors, missing,
                   per_case, replayed):
    pid = chk.pid
    samples, seen_names = [], set()
    for x in st.samples:
        if x["obligation"] not in seen_names and len(samples) < 8:
            seen_names.add(x["obligation"])
            samples.append(x)
    for cex in violations[:3]:
        samples.append({"counterexample": {k: cex[k] for k in ("obligation", "inputs", "observed") if k in cex}})
    for fid, cex in list(known_hits.items())[:3]:
        samples.append({"known_finding": fid, "inputs": cex["inputs"], "observed": cex.get("observed")})
    if not samples:
        samples.append({"note": "no obligation recorded"})
    ev = {
        "property_id": pid,
        "tier": tier,
        "seed": seed,
        "level": "model_checking",
        "coverage": {
            "states": st.paths,
            "transitions": st.ob_unsat + st.ob_sat + st.ob_unknown + st.feas_queries,
            "traces_validated_against_impl": n_validated,
            "samples": samples,
            "explanation": "states = symbolic paths of the real code explored to completion; transitions = solver queries "
                           "(path-feasibility checks + obligations) decided; every obligation is a universally quantified "
                           "claim over all inputs on that path within the stated bounds",
            "functions_encoded": chk.functions_encoded(),
            "bounds": chk.bounds.get(tier, chk.bounds) if isinstance(chk.bounds, dict) else chk.bounds,
            "outside_bounds": chk.outside,
            "stubs": chk.stubs,
            "lemmas": chk.lemmas,
            "queries": {"obligations_unsat": st.ob_unsat, "obligations_sat": st.ob_sat,
                        "obligations_unknown": st.ob_unknown, "feasibility": st.feas_queries,
                        "feasibility_unknown": st.feas_unknown},
            "obligations_by_name": st.ob_names,
            "solver_s": round(st.solver_s, 2),
            "inconclusive": st.ob_unknown,
            "inconclusive_samples": st.unknowns[:10],
            "truncated": st.truncated,
            "max_path_depth": st.max_depth,
            "reachability_witnesses": st.reach,
            "reachability_missing": missing,
            "counterexamples_replayed_on_real_code": replayed,
            "known_findings_hit": sorted(known_hits),
            "harness_errors": [m[:400] for (_c, m) in harness_errors[:5]],
            "cases": sorted(per_case, key=lambda d: -d["s"])[:40],
            "n_cases": len(per_case),
            "notes": st.notes[:20],
            "exhaustive": False,
        },
        "assumptions": list(chk.assumptions) + ["stub: " + s for s in chk.stubs],
        "wall_s": round(wall, 2),
        "violations": len(violations),
    }
    os.makedirs(os.path.join(VERIF, "evidence"), exist_ok=True)
    with open(os.path.join(VERIF, "evidence", pid + ".json"), "w") as f:
        json.dump(ev, f, indent=1, default=str)


def main(chk):
    sys.exit(run_check(chk))


def run_pinned(fn, cfg=None):
    """Execute fn(run) once under the engine with all inputs pinned to constants; requires exactly one
    path.  Used by translator validation (shim-loaded code on constant symbolic terms vs native code)."""
    out = []
    ex = engine.Explorer(lambda run: out.append(fn(run)), cfg or engine.Config())
    st = ex.explore()
    assert st.paths == 1 and len(out) == 1, "pinned run must follow exactly one path (got %d)" % st.paths
    return out[0]


class NotPinned(Exception):
    """The value of a pinned run is not determined by the model (a rounding-dependent model choice was made)."""


def concrete(x):
    """Python value of a constant symbolic value (after a pinned run)."""
    import z3
    from fractions import Fraction
    from .values import SymReal, SymInt, SymQ, SymBool
    if isinstance(x, (list, tuple)):
        return type(x)(concrete(e) for e in x)
    if isinstance(x, SymReal):
        v = z3.simplify(x.t)
        assert z3.is_rational_value(v), "not constant: %s" % v
        return Fraction(v.numerator_as_long(), v.denominator_as_long())
    if isinstance(x, SymInt):
        v = z3.simplify(x.t)
        if not z3.is_int_value(v) and engine.have_run():
            r, m = engine.cur().check_sat([])      # pinned run: the value is determined by the path condition
            assert r == "sat"
            k = engine.model_value(m, x.t)
            r2, _m2 = engine.cur().check_sat([x.t != k])
            if r2 != "unsat" and engine.cur().approx:
                raise NotPinned(engine.cur().approx)
            assert r2 == "unsat", "pinned value is not unique"
            return k
        assert z3.is_int_value(v), "not constant: %s" % v
        return v.as_long()
    if isinstance(x, SymQ):
        v = z3.simplify(x.num)
        if not z3.is_int_value(v) and engine.have_run():
            return Fraction(concrete(SymInt(x.num)), x.den)
        assert z3.is_int_value(v), "not constant: %s" % v
        return Fraction(v.as_long(), x.den)
    if isinstance(x, SymBool):
        v = z3.simplify(x.t)
        assert z3.is_true(v) or z3.is_false(v)
        return z3.is_true(v)
    if isinstance(x, float):
        return Fraction(x)
    return x


def test_rows(test_file, funcname, length=None):
    """Literal list rows found inside a test function of the repository's own test-suite (used as
    translator-validation inputs)."""
    import ast
    from . import loader
    src = loader.read_source(os.path.join(loader.REPO, "test", test_file))
    rows = []
    for node in ast.walk(ast.parse(src)):
        if isinstance(node, ast.FunctionDef) and node.name == funcname:
            for sub in ast.walk(node):
                if isinstance(sub, (ast.List, ast.Tuple)) and (length is None or len(sub.elts) == length):
                    try:
                        v = ast.literal_eval(sub)
                    except Exception:
                        continue
                    rows.append(v)
    return rows
