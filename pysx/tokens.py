"""Token strings: formatting a symbolic number yields a real ``str`` that contains an ASCII token
``\\x02<kind><id>:<spec>\\x03``; the harness maps it back to (term, spec).  f-strings and
``str.format`` are built by C code and need real ``str`` pieces; the token survives ``strip``,
``encode('ascii')``, ``decode``, slicing at literal positions and ``startswith``."""
import re
from . import engine

TOK_RE = re.compile("\x02([a-z])(\\d+):([^\x03]*)\x03")


def _table():
    r = engine.cur()
    t = r.notes.get("_tokens")
    if t is None:
        t = []
        r.notes["_tokens"] = t
    return t


def make_token(value, spec):
    from .values import SymInt, SymQ, SymReal
    from .strs import SymStr
    t = _table()
    kind = "i" if isinstance(value, SymInt) else "q" if isinstance(value, SymQ) else \
        "r" if isinstance(value, SymReal) else "s"
    t.append((value, spec))
    return "\x02%s%d:%s\x03" % (kind, len(t) - 1, spec)


def has_token(s):
    return isinstance(s, str) and "\x02" in s


def lookup(idx):
    return _table()[idx]


def split_tokens(s):
    """Decode a string into a list of pieces: literal str or (value, spec) tuples."""
    out = []
    pos = 0
    for m in TOK_RE.finditer(s):
        if m.start() > pos:
            out.append(s[pos:m.start()])
        out.append(lookup(int(m.group(2))))
        pos = m.end()
    if pos < len(s):
        out.append(s[pos:])
    return out


def parse_number_token(s, how):
    """int()/float() applied to a real str that carries tokens."""
    from .values import SymInt, SymQ, SymReal
    from .strs import SymStr
    st = s.strip()
    m = TOK_RE.fullmatch(st)
    if not m:
        # literal text mixed with a token: not a numeral
        raise ValueError("invalid literal for %s(): %r" % (how, s))
    value, spec = lookup(int(m.group(2)))
    if isinstance(value, SymStr):
        return value.to_int(10) if how == "int" else value.to_float()
    if spec not in ("", "d"):
        raise ValueError("cannot parse formatted token back (spec %r)" % spec)
    if how == "int":
        if isinstance(value, SymInt):
            return value
        raise ValueError("invalid literal for int() (non-integer token)")
    return value
