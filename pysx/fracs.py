"""Rationals with symbolic denominator (used by calculate_lm / max_rate_t3); see C03/C17."""


class SymFrac:
    pass


def mp_sqrt(x):
    raise NotImplementedError
