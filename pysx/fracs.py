"""Rationals with a *symbolic* denominator: p/q with z3 Int terms p, q and the invariant q > 0 on the
current path (a division forks on the sign of the divisor, and on divisor == 0 -> ZeroDivisionError).
Comparisons cross-multiply; floor/ceil introduce a fresh integer with its defining inequalities.
Used where the code divides by a symbolic integer (max_rate_t3's vertex, calculate_lm's roots)."""
from fractions import Fraction

import z3

from . import engine
from .values import SymInt, SymQ, SymReal, SymBool, mkbool, PREC


class SymFrac:
    __slots__ = ("p", "q", "kind")

    def __init__(self, p, q, kind=None):
        self.p = p
        self.q = q
        self.kind = kind

    @staticmethod
    def of(x):
        if isinstance(x, SymFrac):
            return x
        if isinstance(x, SymQ):
            return SymFrac(x.num, z3.IntVal(x.den), x.kind)
        if isinstance(x, SymInt):
            return SymFrac(x.t, z3.IntVal(1))
        if isinstance(x, bool):
            x = int(x)
        if isinstance(x, int):
            return SymFrac(z3.IntVal(x), z3.IntVal(1))
        if isinstance(x, float):
            fr = Fraction(x)
            return SymFrac(z3.IntVal(fr.numerator), z3.IntVal(fr.denominator), "f")
        if isinstance(x, Fraction):
            return SymFrac(z3.IntVal(x.numerator), z3.IntVal(x.denominator))
        raise TypeError("cannot make SymFrac of %r" % (x,))

    def _k(self, o):
        return self.kind or o.kind

    def _lift(self, o):
        if isinstance(o, (SymFrac, SymQ, SymInt, int, float, Fraction)):
            return SymFrac.of(o)
        return None

    def __repr__(self):
        return "SymFrac(%s / %s)" % (self.p, self.q)

    def __add__(self, o):
        b = self._lift(o)
        if b is None:
            return NotImplemented
        return SymFrac(self.p * b.q + b.p * self.q, self.q * b.q, self._k(b))

    __radd__ = __add__

    def __sub__(self, o):
        b = self._lift(o)
        if b is None:
            return NotImplemented
        return SymFrac(self.p * b.q - b.p * self.q, self.q * b.q, self._k(b))

    def __rsub__(self, o):
        b = self._lift(o)
        if b is None:
            return NotImplemented
        return b - self

    def __mul__(self, o):
        b = self._lift(o)
        if b is None:
            return NotImplemented
        return SymFrac(self.p * b.p, self.q * b.q, self._k(b))

    __rmul__ = __mul__

    def __neg__(self):
        return SymFrac(-self.p, self.q, self.kind)

    def __pos__(self):
        return self

    def __abs__(self):
        return SymFrac(z3.If(self.p >= 0, self.p, -self.p), self.q, self.kind)

    def __truediv__(self, o):
        b = self._lift(o)
        if b is None:
            return NotImplemented
        r = engine.cur()
        d = z3.simplify(b.p)
        if z3.is_int_value(d):
            v = d.as_long()
            if v == 0:
                raise ZeroDivisionError("division by zero")
            if v > 0:
                return SymFrac(self.p * b.q, self.q * b.p, self._k(b))
            return SymFrac(-(self.p * b.q), self.q * (-b.p), self._k(b))
        if r.branch(b.p == 0):
            raise ZeroDivisionError("division by zero")
        if r.branch(b.p > 0):
            return SymFrac(self.p * b.q, self.q * b.p, self._k(b))
        return SymFrac(-(self.p * b.q), self.q * (-b.p), self._k(b))

    def __rtruediv__(self, o):
        b = self._lift(o)
        if b is None:
            return NotImplemented
        return b / self

    def _cmp(self, o, op):
        b = self._lift(o)
        if b is None:
            return NotImplemented
        x, y = self.p * b.q, b.p * self.q
        return mkbool({"lt": x < y, "le": x <= y, "gt": x > y, "ge": x >= y, "eq": x == y, "ne": x != y}[op])

    def __lt__(self, o):
        return self._cmp(o, "lt")

    def __le__(self, o):
        return self._cmp(o, "le")

    def __gt__(self, o):
        return self._cmp(o, "gt")

    def __ge__(self, o):
        return self._cmp(o, "ge")

    def __eq__(self, o):
        r = self._cmp(o, "eq")
        return False if r is NotImplemented else r

    def __ne__(self, o):
        r = self._cmp(o, "ne")
        return True if r is NotImplemented else r

    def __hash__(self):
        return id(self)

    def __bool__(self):
        return engine.cur().branch(self.p != 0)

    # -- integer parts ---------------------------------------------------------------------------------
    def floor_int(self, tag="floor"):
        r = engine.cur()
        n = r.fresh_int(tag)
        r.notes.setdefault("_fresh_ints", []).append((tag, n))
        r.assume(z3.And(self.q * n <= self.p, self.p < self.q * (n + 1)))
        return SymInt(n)

    def ceil_int(self, tag="ceil"):
        r = engine.cur()
        n = r.fresh_int(tag)
        r.notes.setdefault("_fresh_ints", []).append((tag, n))
        r.assume(z3.And(self.q * (n - 1) < self.p, self.p <= self.q * n))
        return SymInt(n)

    def trunc_int(self):
        if engine.cur().branch(self.p >= 0):
            return self.floor_int("trunc")
        return self.ceil_int("trunc")

    def __floor__(self):
        return self.floor_int()

    def __ceil__(self):
        return self.ceil_int()

    def __trunc__(self):
        return self.trunc_int()

    def floor_mp(self):
        n = self.floor_int()
        return SymQ(n.t, 1, "mp")

    def ceil_mp(self):
        n = self.ceil_int()
        return SymQ(n.t, 1, "mp")


def mp_sqrt(x):
    raise NotImplementedError("mp sqrt is modelled in the calculate_lm harness")
