"""Symbolic numeric values: SymBool, SymInt, SymQ (Int over concrete denominator), SymReal.

All of them overload Python's operators and build z3 terms.  A symbolic Boolean that reaches
``if`` / ``while`` / ``and`` / ``or`` / ``not`` forks the path through ``engine.cur().branch``.
"""
import math
from fractions import Fraction

import z3

from . import engine

INT_TYPES = (int,)


# ----------------------------------------------------------------------------------------------
# Booleans
# ----------------------------------------------------------------------------------------------
def mkbool(t):
    if isinstance(t, bool):
        return t
    t = z3.simplify(t)
    if z3.is_true(t):
        return True
    if z3.is_false(t):
        return False
    return SymBool(t)


def zbool(x):
    if isinstance(x, SymBool):
        return x.t
    if isinstance(x, bool):
        return z3.BoolVal(x)
    if isinstance(x, z3.BoolRef):
        return x
    raise TypeError("not a boolean: %r" % (x,))


class SymBool:
    __slots__ = ("t",)

    def __init__(self, t):
        self.t = t

    def __bool__(self):
        return engine.cur().branch(self.t)

    def __eq__(self, o):
        if isinstance(o, (SymBool, bool)):
            return mkbool(self.t == zbool(o))
        return NotImplemented

    def __ne__(self, o):
        if isinstance(o, (SymBool, bool)):
            return mkbool(self.t != zbool(o))
        return NotImplemented

    def __and__(self, o):
        return mkbool(z3.And(self.t, zbool(o)))

    __rand__ = __and__

    def __or__(self, o):
        return mkbool(z3.Or(self.t, zbool(o)))

    __ror__ = __or__

    def __xor__(self, o):
        return mkbool(z3.Xor(self.t, zbool(o)))

    __rxor__ = __xor__

    def __invert__(self):
        return mkbool(z3.Not(self.t))

    def __hash__(self):
        return id(self)

    def __repr__(self):
        return "SymBool(%s)" % self.t

    def __format__(self, spec):
        return "True" if bool(self) else "False"


# ----------------------------------------------------------------------------------------------
# helpers
# ----------------------------------------------------------------------------------------------
def float_exact(f):
    """Exact rational value of a binary64 (integer tower)."""
    return Fraction(f)


def float_decimal(f):
    """The decimal numeral a float literal was written as (real tower: floats model reals)."""
    if f != f or f in (math.inf, -math.inf):
        raise ValueError("non-finite float in symbolic arithmetic")
    return Fraction(repr(f))


def _bmax(a, b):
    if a is None or b is None:
        return None
    return max(a, b)


def _badd(a, b):
    if a is None or b is None:
        return None
    return a + b


def _bmul(a, b):
    if a is None or b is None:
        return None
    return a * b


def is_pow2(n):
    return n > 0 and (n & (n - 1)) == 0


class PrecisionState:
    """Working precision of the modelled arbitrary-precision context (mpmath shim) and a log of
    operations whose exactness could not be established from the magnitude bounds."""

    def __init__(self):
        self.reset()

    def reset(self, ambient=None):
        self.mp_prec = ambient      # int (bits), or None = unknown ambient precision
        self.flags = []             # list of dicts describing inexact / unbounded operations
        self.ambient_ops = []       # (what, num term, den) of mp operations done at ambient precision
        self.inexact_ops = []       # (what, kind, num term, den, prec): exactness not implied by interval bounds
        self.robust_cmps = []       # (numerator of a-b, denominator, error bound): comparisons of rounded values

    def flag(self, kind, what, **kw):
        d = {"kind": kind, "what": what}
        d.update(kw)
        self.flags.append(d)


PREC = PrecisionState()


# ----------------------------------------------------------------------------------------------
# Integers
# ----------------------------------------------------------------------------------------------
def zint(x):
    if isinstance(x, SymInt):
        return x.t
    if isinstance(x, bool):
        return z3.IntVal(int(x))
    if isinstance(x, int):
        return z3.IntVal(x)
    raise TypeError("not an integer: %r" % (x,))


def ibound(x):
    if isinstance(x, SymInt):
        return x.bound
    return abs(int(x))


def trunc_div(n, d):
    """z3 term: n / d truncated toward zero, d a positive Python int."""
    assert d > 0
    return z3.If(n >= 0, n / d, -((-n) / d))


class SymInt:
    """Integer-valued symbolic value. ``bound``: concrete upper bound on |value| or None."""
    __slots__ = ("t", "bound")

    def __init__(self, t, lo=None, hi=None, bound=None):
        self.t = t
        if bound is None and lo is not None and hi is not None:
            bound = max(abs(lo), abs(hi))
        self.bound = bound

    # -- conversions ---------------------------------------------------------------------------
    def __repr__(self):
        return "SymInt(%s)" % self.t

    def __index__(self):
        return engine.cur().concretize(self.t)

    def __hash__(self):
        # hashing (dict / set keys) needs a concrete value: a handful of values are enumerated, the rest is truncated
        return hash(engine.cur().concretize(self.t, limit=6))

    def __bool__(self):
        return engine.cur().branch(self.t != 0)

    def __round__(self, nd=None):
        return self

    def __floor__(self):
        return self

    def __ceil__(self):
        return self

    def __trunc__(self):
        return self

    def __format__(self, spec):
        from .tokens import make_token
        return make_token(self, spec)

    def __str__(self):
        from .tokens import make_token
        return make_token(self, "")

    def __abs__(self):
        return SymInt(z3.If(self.t >= 0, self.t, -self.t), bound=self.bound)

    def __neg__(self):
        return SymInt(-self.t, bound=self.bound)

    def __pos__(self):
        return self

    def to_bytes(self, length, byteorder="big", signed=False):
        from .shims import int_to_bytes
        return int_to_bytes(self, length, byteorder, signed)

    # -- arithmetic ----------------------------------------------------------------------------
    def _coerce(self, o):
        """None if o cannot be handled at integer level."""
        if isinstance(o, SymInt):
            return o
        if isinstance(o, bool):
            return int(o)
        if isinstance(o, int):
            return o
        return None

    def __add__(self, o):
        c = self._coerce(o)
        if c is None:
            return _promote(self, o, "add")
        return SymInt(self.t + zint(c), bound=_badd(self.bound, ibound(c)))

    __radd__ = __add__

    def __sub__(self, o):
        c = self._coerce(o)
        if c is None:
            return _promote(self, o, "sub")
        return SymInt(self.t - zint(c), bound=_badd(self.bound, ibound(c)))

    def __rsub__(self, o):
        c = self._coerce(o)
        if c is None:
            return _promote(o, self, "sub", reflected=True)
        return SymInt(zint(c) - self.t, bound=_badd(self.bound, ibound(c)))

    def __mul__(self, o):
        c = self._coerce(o)
        if c is None:
            return _promote(self, o, "mul")
        return SymInt(self.t * zint(c), bound=_bmul(self.bound, ibound(c)))

    __rmul__ = __mul__

    def __truediv__(self, o):
        if isinstance(o, SymReal):
            return SymReal.of(self) / o
        return SymQ.of(self, "f") / o      # int / int is binary64 true division in the real code

    def __rtruediv__(self, o):
        return SymQ.of(o, "f") / self

    def __floordiv__(self, o):
        if isinstance(o, int) and not isinstance(o, bool) and o != 0:
            if o > 0:
                return SymInt(self.t / o, bound=self.bound)
            return SymInt((-self.t) / (-o), bound=self.bound)
        if isinstance(o, SymInt):
            k = engine.cur().concretize(o.t)
            if k == 0:
                raise ZeroDivisionError("integer division or modulo by zero")
            return self // k
        return NotImplemented

    def __mod__(self, o):
        if isinstance(o, int) and not isinstance(o, bool) and o != 0:
            if o > 0:
                return SymInt(self.t % o, bound=o)
            return SymInt(-((-self.t) % (-o)), bound=-o)
        if isinstance(o, SymInt):
            k = engine.cur().concretize(o.t)
            if k == 0:
                raise ZeroDivisionError("integer division or modulo by zero")
            return self % k
        return NotImplemented

    def __divmod__(self, o):
        return self // o, self % o

    def __pow__(self, o):
        if isinstance(o, int) and 0 <= o <= 8:
            r = 1
            for _ in range(o):
                r = self * r
            return r
        return NotImplemented

    # -- shifts and bit operations (concrete shift counts; bit operations through 64-bit vectors) ----------
    def __lshift__(self, k):
        if isinstance(k, SymInt):
            k = engine.cur().concretize(k.t)
        if isinstance(k, int) and 0 <= k <= 256:
            return self * (1 << k)
        return NotImplemented

    def __rlshift__(self, o):
        k = engine.cur().concretize(self.t)
        return o << k

    def __rshift__(self, k):
        if isinstance(k, SymInt):
            k = engine.cur().concretize(k.t)
        if isinstance(k, int) and 0 <= k <= 256:
            return self // (1 << k)
        return NotImplemented

    def _bitop(self, o, fn):
        """bitwise operation on non-negative integers by bit decomposition (div/mod by powers of two: linear integer
        arithmetic); the width comes from the magnitude bounds (64 bits when unknown).  Negative operands: 128-bit vectors."""
        c = self._coerce(o)
        if c is None:
            return NotImplemented
        a, b = self.t, zint(c)
        r = engine.cur()
        nonneg = r.branch(z3.And(a >= 0, b >= 0))
        if not nonneg:
            x, y = z3.Int2BV(a, 128), z3.Int2BV(b, 128)
            return SymInt(z3.BV2Int({"or": x | y, "and": x & y, "xor": x ^ y}[fn], True))
        ba, bb = self.bound, ibound(c)
        width = 64 if ba is None or bb is None else max(int(ba).bit_length(), int(bb).bit_length(), 1)
        total = z3.IntVal(0)
        for j in range(width):
            aj, bj = (a / (1 << j)) % 2, (b / (1 << j)) % 2
            if fn == "or":
                bit = z3.If(z3.Or(aj == 1, bj == 1), 1, 0)
            elif fn == "and":
                bit = z3.If(z3.And(aj == 1, bj == 1), 1, 0)
            else:
                bit = z3.If(aj != bj, 1, 0)
            total = total + bit * (1 << j)
        if ba is None or bb is None:
            r.assume(z3.And(a < (1 << 64), b < (1 << 64)))
        return SymInt(total, bound=(1 << width) - 1)

    def __or__(self, o):
        return self._bitop(o, "or")

    __ror__ = __or__

    def __and__(self, o):
        return self._bitop(o, "and")

    __rand__ = __and__

    def __xor__(self, o):
        return self._bitop(o, "xor")

    __rxor__ = __xor__

    # -- comparisons ---------------------------------------------------------------------------
    def _cmp(self, o, op):
        c = self._coerce(o)
        if c is None:
            if isinstance(o, (float, Fraction, SymQ)):
                return getattr(SymQ.of(self), op)(o)
            if isinstance(o, SymReal):
                return getattr(SymReal.of(self), op)(o)
            return NotImplemented
        a, b = self.t, zint(c)
        if op == "__lt__":
            return mkbool(a < b)
        if op == "__le__":
            return mkbool(a <= b)
        if op == "__gt__":
            return mkbool(a > b)
        if op == "__ge__":
            return mkbool(a >= b)
        if op == "__eq__":
            return mkbool(a == b)
        return mkbool(a != b)

    def __lt__(self, o):
        return self._cmp(o, "__lt__")

    def __le__(self, o):
        return self._cmp(o, "__le__")

    def __gt__(self, o):
        return self._cmp(o, "__gt__")

    def __ge__(self, o):
        return self._cmp(o, "__ge__")

    def __eq__(self, o):
        r = self._cmp(o, "__eq__")
        return False if r is NotImplemented else r

    def __ne__(self, o):
        r = self._cmp(o, "__ne__")
        return True if r is NotImplemented else r


def _promote(a, b, op, reflected=False):
    """Binary operation where one side is not integer-level."""
    other = b if isinstance(a, SymInt) and not reflected else a
    if reflected:
        other = a
    if isinstance(other, SymReal):
        x, y = SymReal.of(a), SymReal.of(b)
    elif isinstance(other, (float, Fraction, SymQ)):
        x, y = SymQ.of(a), SymQ.of(b)
    else:
        return NotImplemented
    if op == "add":
        return x + y
    if op == "sub":
        return x - y
    if op == "mul":
        return x * y
    raise AssertionError(op)


# ----------------------------------------------------------------------------------------------
# Rationals with a concrete denominator
# ----------------------------------------------------------------------------------------------
class SymQ:
    """num / den with num a z3 Int term and den a concrete positive int.

    kind: None  = exact rational (derived from ints only),
          'f'   = result of binary64 arithmetic in the real code,
          'mp'  = result of mpmath arithmetic in the real code.
    bound: concrete Fraction >= |value| (or None); err: concrete Fraction >= |model - real value|.
    The model value is always the *exact* rational; kind/bound/err drive the exactness
    side-conditions (see PrecisionState)."""
    __slots__ = ("num", "den", "kind", "bound", "err", "sr")

    def __init__(self, num, den=1, kind=None, bound=None, err=0):
        assert isinstance(den, int) and den > 0
        self.num = num
        self.den = den
        self.kind = kind
        self.bound = bound
        self.err = err
        self.sr = False      # err stems from one correctly rounded operation on exact operands

    @staticmethod
    def of(x, kind=None):
        if isinstance(x, SymQ):
            return x
        if isinstance(x, SymInt):
            return SymQ(x.t, 1, kind, None if x.bound is None else Fraction(x.bound))
        if isinstance(x, bool):
            x = int(x)
        if isinstance(x, int):
            return SymQ(z3.IntVal(x), 1, kind, Fraction(abs(x)))
        if isinstance(x, float):
            fr = float_exact(x)
            return SymQ(z3.IntVal(fr.numerator), fr.denominator, "f", abs(fr))
        if isinstance(x, Fraction):
            return SymQ(z3.IntVal(x.numerator), x.denominator, kind, abs(x))
        raise TypeError("cannot make SymQ of %r" % (x,))

    def is_const(self):
        return z3.is_int_value(z3.simplify(self.num))

    def const_value(self):
        return Fraction(z3.simplify(self.num).as_long(), self.den)

    def __repr__(self):
        return "SymQ(%s / %d)" % (self.num, self.den)

    # -- rounding model ------------------------------------------------------------------------
    def _finish(self, a, b, what):
        """Set kind and account for rounding of the operation that produced self from a, b.

        Exactly representable results (power-of-two denominator and numerator below 2^prec, established
        from the interval bounds) need nothing.  If the bounds do not establish it, the operation is
        logged in PREC.inexact_ops and becomes a solver obligation at the end of the path.  A result
        with a non-power-of-two denominator is inherently rounded: its error bound grows by
        bound * 2^-prec."""
        kinds = (a.kind, b.kind if b is not None else None)
        if "mp" in kinds:
            self.kind = "mp"
        elif "f" in kinds:
            self.kind = "f"
        else:
            self.kind = None
            return self
        if self.kind == "mp":
            prec = PREC.mp_prec
            if prec is None:
                PREC.ambient_ops.append((what, self.num, self.den))
                return self
        else:
            prec = 53
        if is_pow2(self.den):
            if self.err == 0 and self.bound is not None and self.bound * self.den < (1 << prec):
                return self  # exactly representable: numerator fits the mantissa
            if self.err == 0:
                PREC.inexact_ops.append((what, self.kind, self.num, self.den, prec))
                return self
        if self.bound is None:
            PREC.flag("unbounded", what)
            return self
        self.sr = (a.err == 0 and (b is None or b.err == 0))
        self.err = self.err + self.bound / (1 << prec)
        return self

    # -- arithmetic ----------------------------------------------------------------------------
    def _lift(self, o):
        if isinstance(o, (SymQ, SymInt, int, float, Fraction)):
            return SymQ.of(o)
        return None

    def __add__(self, o):
        if isinstance(o, SymReal):
            return SymReal.of(self) + o
        b = self._lift(o)
        if b is None:
            return NotImplemented
        g = self.den * b.den // math.gcd(self.den, b.den)
        r = SymQ(self.num * (g // self.den) + b.num * (g // b.den), g, None, _badd(self.bound, b.bound),
                 self.err + b.err)
        return r._finish(self, b, "add")

    __radd__ = __add__

    def __neg__(self):
        return SymQ(-self.num, self.den, self.kind, self.bound, self.err)

    def __pos__(self):
        return self

    def __sub__(self, o):
        if isinstance(o, SymReal):
            return SymReal.of(self) - o
        b = self._lift(o)
        if b is None:
            return NotImplemented
        g = self.den * b.den // math.gcd(self.den, b.den)
        r = SymQ(self.num * (g // self.den) - b.num * (g // b.den), g, None, _badd(self.bound, b.bound),
                 self.err + b.err)
        return r._finish(self, b, "sub")

    def __rsub__(self, o):
        b = self._lift(o)
        if b is None:
            return NotImplemented
        return b - self

    def __mul__(self, o):
        if isinstance(o, SymReal):
            return SymReal.of(self) * o
        b = self._lift(o)
        if b is None:
            return NotImplemented
        err = 0
        if self.err or b.err:
            if self.bound is None or b.bound is None:
                err = None
            else:
                err = self.err * b.bound + b.err * self.bound + self.err * b.err
        r = SymQ(self.num * b.num, self.den * b.den, None, _bmul(self.bound, b.bound), err if err is not None else 0)
        if err is None:
            PREC.flag("unbounded", "mul of inexact operands")
        return r._finish(self, b, "mul")

    __rmul__ = __mul__

    def __truediv__(self, o):
        if isinstance(o, SymReal):
            return SymReal.of(self) / o
        b = self._lift(o)
        if b is None:
            return NotImplemented
        if b.is_const():
            c = b.const_value()
            if c == 0:
                raise ZeroDivisionError("division by zero")
            if b.err:
                PREC.flag("unbounded", "division by inexact constant")
            n, d = c.numerator, c.denominator  # self / (n/d) = self * d / n
            if n < 0:
                n, d = -n, -d
            r = SymQ(self.num * d, self.den * n, None,
                     None if self.bound is None else self.bound * abs(d) / n, self.err * abs(d) / n)
            return r._finish(self, b, "div")
        from .fracs import SymFrac
        return SymFrac.of(self) / SymFrac.of(b)

    def __rtruediv__(self, o):
        b = self._lift(o)
        if b is None:
            return NotImplemented
        return b / self

    def __abs__(self):
        return SymQ(z3.If(self.num >= 0, self.num, -self.num), self.den, self.kind, self.bound, self.err)

    def __floordiv__(self, o):
        b = self._lift(o)
        if b is None or not b.is_const() or b.const_value() <= 0:
            return NotImplemented
        c = b.const_value()
        # floor((num/den) / (cn/cd)) = floor(num*cd / (den*cn))
        q = (self.num * c.denominator) / (self.den * c.numerator)
        return SymQ(q, 1, self.kind or "f", None if self.bound is None else self.bound / c + 1)

    def __mod__(self, o):
        q = self.__floordiv__(o)
        if q is NotImplemented:
            return NotImplemented
        return self - q * o

    def __divmod__(self, o):
        q = self.__floordiv__(o)
        if q is NotImplemented:
            return NotImplemented
        return q, self - q * o

    def floor_int(self):
        return SymInt(self.num / self.den, bound=None if self.bound is None else int(self.bound) + 1)

    def ceil_int(self):
        return SymInt(-((-self.num) / self.den), bound=None if self.bound is None else int(self.bound) + 1)

    def trunc_int(self):
        return SymInt(trunc_div(self.num, self.den), bound=None if self.bound is None else int(self.bound) + 1)

    def __floor__(self):
        return self.floor_int()

    def __ceil__(self):
        return self.ceil_int()

    def __trunc__(self):
        return self.trunc_int()

    def round_even_int(self):
        """Python round(): nearest integer, ties to even (exact on the model value)."""
        n, d = self.num, self.den
        if d == 1:
            return SymInt(n, bound=None if self.bound is None else int(self.bound))
        fl = n / d                       # floor
        rem2 = 2 * (n - fl * d)          # 2*frac*d in [0, 2d)
        up = z3.Or(rem2 > d, z3.And(rem2 == d, fl % 2 == 1))
        return SymInt(z3.If(up, fl + 1, fl), bound=None if self.bound is None else int(self.bound) + 1)

    def __round__(self, nd=None):
        if nd is not None:
            # round(x, n): the nearest multiple of 10^-n (n may be negative), stored again in the value's
            # own arithmetic (a decimal is not a binary fraction: one more rounding error for floats)
            nd = int(nd)
            up, dn = (10 ** nd, 1) if nd >= 0 else (1, 10 ** (-nd))
            scaled = SymQ(self.num * up, self.den * dn, self.kind,
                          None if self.bound is None else self.bound * Fraction(up, dn), Fraction(self.err) * Fraction(up, dn))
            scaled.sr = self.sr and is_pow2(up)
            k = scaled.__round__()
            kt = k.t if isinstance(k, SymInt) else z3.IntVal(int(k))
            out = SymQ(kt * dn, up, self.kind, None if self.bound is None else self.bound + Fraction(dn, up), 0)
            if self.kind in ("f", "mp") and not is_pow2(up):
                prec = 53 if self.kind == "f" else PREC.mp_prec
                if prec is None or out.bound is None:
                    PREC.flag("unbounded", "round(x, %d)" % nd)
                else:
                    out.err = out.bound / (1 << prec)
                    out.sr = True
            return out
        if self.err:
            # the real value differs from the model by at most err; rounding is determined unless
            # the model value is within err of a tie.  Ties are at distance 0 or >= 1/(2 den).
            if self.err >= Fraction(1, 2 * self.den):
                # the error can carry the value across a tie: any integer within 1/2 + err of the model value;
                # the path becomes rounding-dependent (counterexamples on it must replay on the real code)
                r = engine.cur()
                k = r.fresh_int("rnd")
                e = Fraction(self.err)
                D = 2 * self.den * e.denominator
                w = self.den * e.denominator + 2 * e.numerator * self.den      # (1/2 + err) * D
                r.assume(z3.And(2 * e.denominator * (k * self.den - self.num) <= w,
                                2 * e.denominator * (self.num - k * self.den) <= w))
                r.rounding_dependent(k != self.round_even_int().t)
                return SymInt(k, bound=None if self.bound is None else int(self.bound) + 1)
            if self.sr and self.bound is not None and 2 * self.bound < (1 << 52):
                # a single correctly rounded operation: an exact tie x.5 is representable, hence computed
                # exactly and rounded half-to-even; any other value is further than err from a tie
                return self.round_even_int()
            r = engine.cur()
            k = r.fresh_int("rnd")
            # |k - n/d| <= 1/2  (either neighbour at an exact tie: the sign of the error decides)
            r.assume(z3.And(2 * (k * self.den - self.num) <= self.den, 2 * (self.num - k * self.den) <= self.den))
            r.rounding_dependent(z3.Or(2 * (k * self.den - self.num) == self.den, 2 * (self.num - k * self.den) == self.den))
            return SymInt(k, bound=None if self.bound is None else int(self.bound) + 1)
        return self.round_even_int()

    def __format__(self, spec):
        from .tokens import make_token
        return make_token(self, spec)

    def __bool__(self):
        return engine.cur().branch(self.num != 0)

    # -- comparisons ---------------------------------------------------------------------------
    def _cmp(self, o, op):
        if isinstance(o, SymReal):
            return getattr(SymReal.of(self), op)(o)
        b = self._lift(o)
        if b is None:
            return NotImplemented
        x = self.num * b.den
        y = b.num * self.den
        if self.err or b.err:
            # the real values differ from the model by at most err: the outcome is only determined
            # when the model values are further apart than that (proved at the end of the path)
            PREC.robust_cmps.append((x - y, self.den * b.den, self.err + b.err))
        if op == "__lt__":
            return mkbool(x < y)
        if op == "__le__":
            return mkbool(x <= y)
        if op == "__gt__":
            return mkbool(x > y)
        if op == "__ge__":
            return mkbool(x >= y)
        if op == "__eq__":
            return mkbool(x == y)
        return mkbool(x != y)

    def __lt__(self, o):
        return self._cmp(o, "__lt__")

    def __le__(self, o):
        return self._cmp(o, "__le__")

    def __gt__(self, o):
        return self._cmp(o, "__gt__")

    def __ge__(self, o):
        return self._cmp(o, "__ge__")

    def __eq__(self, o):
        r = self._cmp(o, "__eq__")
        return False if r is NotImplemented else r

    def __ne__(self, o):
        r = self._cmp(o, "__ne__")
        return True if r is NotImplemented else r

    def __hash__(self):
        return id(self)


# ----------------------------------------------------------------------------------------------
# Reals
# ----------------------------------------------------------------------------------------------
def zreal(x):
    if isinstance(x, SymReal):
        return x.t
    if isinstance(x, SymInt):
        return z3.ToReal(x.t)
    if isinstance(x, SymQ):
        return z3.ToReal(x.num) / z3.RealVal(x.den)
    if isinstance(x, bool):
        return z3.RealVal(int(x))
    if isinstance(x, int):
        return z3.RealVal(x)
    if isinstance(x, float):
        fr = float_decimal(x)
        return z3.RealVal(str(fr))
    if isinstance(x, Fraction):
        return z3.RealVal(str(x))
    raise TypeError("not a real: %r" % (x,))


class SymReal:
    """Real-valued symbolic value (binary64 is modelled as exact real arithmetic)."""
    __slots__ = ("t",)

    def __init__(self, t):
        self.t = t

    @staticmethod
    def of(x):
        if isinstance(x, SymReal):
            return x
        return SymReal(zreal(x))

    def __repr__(self):
        return "SymReal(%s)" % self.t

    def _l(self, o):
        if isinstance(o, (SymReal, SymInt, SymQ, int, float, Fraction)):
            return zreal(o)
        return None

    @staticmethod
    def _nonfinite(o):
        return isinstance(o, float) and (o != o or o in (math.inf, -math.inf))

    def __round__(self, nd=None):
        """round(x) / round(x, n) in the exact-real model: the nearest integer multiple of 10^-n; round(x) takes
        an exact tie half to even, round(x, n > 0) leaves a tie open (rounding-dependent)."""
        r = engine.cur()
        n = 0 if nd is None else int(nd)
        scale = z3.RealVal(10) ** n if n >= 0 else 1 / (z3.RealVal(10) ** (-n))
        scale = z3.simplify(scale)
        y = self.t * scale
        k = r.fresh_int("rnd")
        kr = z3.ToReal(k)
        r.assume(z3.And(2 * (kr - y) <= 1, 2 * (y - kr) <= 1))
        if n == 0:
            r.assume(z3.Implies(z3.Or(2 * (kr - y) == 1, 2 * (y - kr) == 1), k % 2 == 0))
        else:
            # a decimal tie is almost never a binary64 value: which neighbour wins depends on the representation error
            r.rounding_dependent(z3.Or(2 * (kr - y) == 1, 2 * (y - kr) == 1))
        if nd is None:
            return SymInt(k)
        return SymReal(kr / scale)

    def _sign(self):
        """fork on the sign of a finite symbolic real: -1, 0, 1"""
        r = engine.cur()
        if r.branch(self.t > 0):
            return 1
        if r.branch(self.t < 0):
            return -1
        return 0

    def __add__(self, o):
        if self._nonfinite(o):
            return o                      # finite + inf = inf, finite + nan = nan (IEEE)
        b = self._l(o)
        if b is None:
            return NotImplemented
        return SymReal(self.t + b)

    __radd__ = __add__

    def __sub__(self, o):
        if self._nonfinite(o):
            return -o
        b = self._l(o)
        if b is None:
            return NotImplemented
        return SymReal(self.t - b)

    def __rsub__(self, o):
        if self._nonfinite(o):
            return o
        b = self._l(o)
        if b is None:
            return NotImplemented
        return SymReal(b - self.t)

    def __mul__(self, o):
        if self._nonfinite(o):
            if o != o:
                return o
            sg = self._sign()
            return math.nan if sg == 0 else sg * o
        b = self._l(o)
        if b is None:
            return NotImplemented
        return SymReal(self.t * b)

    __rmul__ = __mul__

    def __truediv__(self, o):
        if self._nonfinite(o):
            return o if o != o else 0.0
        b = self._l(o)
        if b is None:
            return NotImplemented
        b = z3.simplify(b)
        if z3.is_rational_value(b):
            if b.numerator_as_long() == 0:
                raise ZeroDivisionError("float division by zero")
            return SymReal(self.t / b)
        if engine.cur().branch(b == 0):
            raise ZeroDivisionError("float division by zero")
        return SymReal(self.t / b)

    def __rtruediv__(self, o):
        if self._nonfinite(o):
            if o != o:
                return o
            sg = self._sign()
            if sg == 0:
                raise ZeroDivisionError("float division by zero")
            return sg * o
        b = self._l(o)
        if b is None:
            return NotImplemented
        return SymReal(b) / self

    def __pow__(self, o):
        if isinstance(o, int) and 0 <= o <= 8:
            r = SymReal(z3.RealVal(1))
            for _ in range(o):
                r = r * self
            return r
        return NotImplemented

    def __neg__(self):
        return SymReal(-self.t)

    def __pos__(self):
        return self

    def __abs__(self):
        return SymReal(z3.If(self.t >= 0, self.t, -self.t))

    def __bool__(self):
        return engine.cur().branch(self.t != 0)

    def __floor__(self):
        from .floors import SymFloor
        return SymFloor(self)

    def __hash__(self):
        return id(self)

    def __format__(self, spec):
        from .tokens import make_token
        return make_token(self, spec)

    def _cmp(self, o, op):
        b = self._l(o)
        if b is None:
            if isinstance(o, float) and o in (math.inf, -math.inf):
                raise TypeError("inf")
            return NotImplemented
        a = self.t
        if op == "__lt__":
            return mkbool(a < b)
        if op == "__le__":
            return mkbool(a <= b)
        if op == "__gt__":
            return mkbool(a > b)
        if op == "__ge__":
            return mkbool(a >= b)
        if op == "__eq__":
            return mkbool(a == b)
        return mkbool(a != b)

    def __lt__(self, o):
        if isinstance(o, float) and o != o:
            return False
        if isinstance(o, float) and math.isinf(o):
            return o > 0
        return self._cmp(o, "__lt__")

    def __le__(self, o):
        if isinstance(o, float) and o != o:
            return False
        if isinstance(o, float) and math.isinf(o):
            return o > 0
        return self._cmp(o, "__le__")

    def __gt__(self, o):
        if isinstance(o, float) and o != o:
            return False
        if isinstance(o, float) and math.isinf(o):
            return o < 0
        return self._cmp(o, "__gt__")

    def __ge__(self, o):
        if isinstance(o, float) and o != o:
            return False
        if isinstance(o, float) and math.isinf(o):
            return o < 0
        return self._cmp(o, "__ge__")

    def _note_exact_equality(self, o):
        """Exact equality of a *computed* binary64 value is where the exact-real model and the real arithmetic
        part ways most easily (a midpoint that coincides with an end point in the reals, but not after rounding):
        a counterexample in which such an equality holds is rounding-dependent, i.e. believed only when it replays.
        Equalities between plain inputs / constants are not affected."""
        if not engine.have_run():
            return
        a, b = self.t, self._l(o)
        if b is None:
            return

        def computed(t):
            t = z3.simplify(t) if not z3.is_const(t) else t
            return not (z3.is_const(t) or z3.is_rational_value(t) or z3.is_int_value(t))
        try:
            if computed(a) or computed(b):
                engine.cur().rounding_dependent(a == b)
        except z3.Z3Exception:
            pass

    def __eq__(self, o):
        if isinstance(o, float) and (math.isinf(o) or o != o):
            return False
        r = self._cmp(o, "__eq__")
        if isinstance(r, SymBool):
            self._note_exact_equality(o)
        return False if r is NotImplemented else r

    def __ne__(self, o):
        if isinstance(o, float) and (math.isinf(o) or o != o):
            return True
        r = self._cmp(o, "__ne__")
        if isinstance(r, SymBool):
            self._note_exact_equality(o)
        return True if r is NotImplemented else r
