"""floor() of a symbolic real.

The value is kept as a quotient a/b whenever the argument is a division (the usual ``floor((x - x0) /
bin_size)``); the sign of b is decided once by a fork, after which every comparison with a concrete
integer is cross-multiplied (``floor(a/b) >= c  <=>  a >= c*b`` for b > 0) and therefore stays linear in
a and b.  When the floor is used as a number (index arithmetic) it is concretised by solver-guided
forking on ``k*b <= a < (k+1)*b`` with k taken from the current model."""
import math
from fractions import Fraction

import z3

from . import engine
from .values import SymReal, SymInt, mkbool


class SymFloor:
    __slots__ = ("a", "b", "_k")

    def __init__(self, v):
        v = v if isinstance(v, SymReal) else SymReal.of(v)
        t = v.t
        self._k = None
        if z3.is_app_of(t, z3.Z3_OP_DIV):
            a, b = t.arg(0), t.arg(1)
            if z3.is_rational_value(b):
                self.a, self.b = t, z3.RealVal(1)
            else:
                # decide the sign of the divisor once (it is non-zero: the division already forked on that)
                if engine.cur().branch(b > 0):
                    self.a, self.b = a, b
                else:
                    self.a, self.b = -a, -b
        else:
            self.a, self.b = t, z3.RealVal(1)

    # floor >= c  <=>  a >= c*b   (b > 0)
    def _ge(self, c):
        return self.a >= c * self.b

    def _lt(self, c):
        return self.a < c * self.b

    def concrete(self):
        if self._k is not None:
            return self._k
        r = engine.cur()
        while True:
            k = r.guided(lambda m: math.floor(Fraction(engine.model_value(m, self.a)) / Fraction(engine.model_value(m, self.b))))
            if r.branch(z3.And(self._ge(k), self._lt(k + 1))):
                self._k = k
                return k

    def _c(self, o):
        if isinstance(o, bool):
            return int(o)
        if isinstance(o, int):
            return o
        return None

    def __lt__(self, o):
        c = self._c(o)
        if c is None:
            return self.concrete() < o
        if self._k is not None:
            return self._k < c
        return mkbool(self._lt(c))

    def __le__(self, o):
        c = self._c(o)
        if c is None:
            return self.concrete() <= o
        if self._k is not None:
            return self._k <= c
        return mkbool(self._lt(c + 1))

    def __gt__(self, o):
        c = self._c(o)
        if c is None:
            return self.concrete() > o
        if self._k is not None:
            return self._k > c
        return mkbool(self._ge(c + 1))

    def __ge__(self, o):
        c = self._c(o)
        if c is None:
            return self.concrete() >= o
        if self._k is not None:
            return self._k >= c
        return mkbool(self._ge(c))

    def __eq__(self, o):
        c = self._c(o)
        if c is None:
            return self.concrete() == o
        if self._k is not None:
            return self._k == c
        return mkbool(z3.And(self._ge(c), self._lt(c + 1)))

    def __ne__(self, o):
        c = self._c(o)
        if c is None:
            return self.concrete() != o
        if self._k is not None:
            return self._k != c
        return mkbool(z3.Or(self._lt(c), self._ge(c + 1)))

    def __hash__(self):
        return hash(self.concrete())

    def __index__(self):
        return self.concrete()

    def __int__(self):
        return self.concrete()

    def __add__(self, o):
        return self.concrete() + o

    __radd__ = __add__

    def __sub__(self, o):
        return self.concrete() - o

    def __rsub__(self, o):
        return o - self.concrete()

    def __mul__(self, o):
        return self.concrete() * o

    __rmul__ = __mul__

    def __neg__(self):
        return -self.concrete()

    def __repr__(self):
        return "SymFloor(%s / %s)" % (self.a, self.b)
