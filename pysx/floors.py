"""floor() of a symbolic real: compared lazily, concretised (solver-guided fork) when used as a number."""
import z3
from . import engine
from .values import SymReal, SymInt, mkbool


class SymFloor:
    __slots__ = ("v",)

    def __init__(self, v):
        self.v = v if isinstance(v, SymReal) else SymReal.of(v)

    def concrete(self):
        r = engine.cur()
        k = r.fresh_int("fl")
        kk = z3.ToReal(k)
        # k <= v < k+1 defines k uniquely
        r._add(z3.And(kk <= self.v.t, self.v.t < kk + 1))
        if r.model is not None:
            r.model = None
        return r.concretize(k)

    def _c(self, o):
        if isinstance(o, bool):
            return int(o)
        if isinstance(o, int):
            return o
        return None

    def __lt__(self, o):
        c = self._c(o)
        if c is None:
            return self.concrete() < o
        return mkbool(self.v.t < c)

    def __le__(self, o):
        c = self._c(o)
        if c is None:
            return self.concrete() <= o
        return mkbool(self.v.t < c + 1)

    def __gt__(self, o):
        c = self._c(o)
        if c is None:
            return self.concrete() > o
        return mkbool(self.v.t >= c + 1)

    def __ge__(self, o):
        c = self._c(o)
        if c is None:
            return self.concrete() >= o
        return mkbool(self.v.t >= c)

    def __eq__(self, o):
        c = self._c(o)
        if c is None:
            return self.concrete() == o
        return mkbool(z3.And(self.v.t >= c, self.v.t < c + 1))

    def __ne__(self, o):
        c = self._c(o)
        if c is None:
            return self.concrete() != o
        return mkbool(z3.Or(self.v.t < c, self.v.t >= c + 1))

    def __hash__(self):
        return hash(self.concrete())

    def __index__(self):
        return self.concrete()

    def __add__(self, o):
        return self.concrete() + o

    __radd__ = __add__

    def __sub__(self, o):
        return self.concrete() - o

    def __rsub__(self, o):
        return o - self.concrete()

    def __mul__(self, o):
        return self.concrete() * o

    __rmul__ = __mul__

    def __neg__(self):
        return -self.concrete()

    def __repr__(self):
        return "SymFloor(%s)" % self.v.t
