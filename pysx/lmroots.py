"""Exact model of the irrational values in ebb_calc.calculate_lm: sqrt(D) and (A + c*sqrt(D)) / B.

No irrational ever reaches the solver: the only operation the code applies to a root is ceil(), and
``ceil(x) = n`` is ``n-1 < x <= n`` with every comparison against sqrt eliminated by squaring
(``sqrt(D) <= W  <=>  W >= 0 and D <= W^2`` and its duals).  All quantities are kept as integers by
scaling with the (concrete) denominators."""
import math
from fractions import Fraction

import z3

from . import engine
from .values import SymInt, SymQ, mkbool
from .fracs import SymFrac


def _q(x):
    return x if isinstance(x, SymQ) else SymQ.of(x)


class SqrtVal:
    """sqrt(D), D a SymQ known to be >= 0 on the path."""

    def __init__(self, D):
        self.D = _q(D)

    def __neg__(self):
        return LinSqrt(SymQ.of(0), -1, self.D)

    def __add__(self, o):
        return LinSqrt(_q(o), 1, self.D)

    __radd__ = __add__

    def __rsub__(self, o):
        return LinSqrt(_q(o), -1, self.D)

    def __sub__(self, o):
        return LinSqrt(-_q(o), 1, self.D)


class LinSqrt:
    """A + c*sqrt(D), c = +1 / -1"""

    def __init__(self, A, c, D):
        self.A, self.c, self.D = _q(A), c, D

    def __add__(self, o):
        return LinSqrt(self.A + _q(o), self.c, self.D)

    __radd__ = __add__

    def __sub__(self, o):
        if isinstance(o, SqrtVal):
            raise NotImplementedError
        return LinSqrt(self.A - _q(o), self.c, self.D)

    def __rsub__(self, o):
        return LinSqrt(_q(o) - self.A, -self.c, self.D)

    def __neg__(self):
        return LinSqrt(-self.A, -self.c, self.D)

    def __truediv__(self, o):
        B = _q(o)
        r = engine.cur()
        if B.den != 1:
            raise NotImplementedError("division of a root by a non-integer")
        if r.branch(B.num == 0):
            raise ZeroDivisionError("division by zero")
        pos = r.branch(B.num > 0)
        return RootFrac(self.A, self.c, self.D, B.num, pos)


class RootFrac:
    """(A + c*sqrt(D)) / B with B a z3 Int term whose sign is known on the path."""

    def __init__(self, A, c, D, B, b_pos):
        self.A, self.c, self.D, self.B, self.b_pos = A, c, D, B, b_pos

    # c*sqrt(D) <= W / < W, with W = Wn/Wd (Wd > 0 concrete); D = Dn/Dd
    def _le(self, Wn, Wd, strict):
        Dn, Dd = self.D.num, self.D.den
        # compare D with W^2:  Dn/Dd ? Wn^2/Wd^2  <=>  Dn*Wd^2 ? Wn^2*Dd
        lhs, rhs = Dn * (Wd * Wd), Wn * Wn * Dd
        if self.c > 0:
            return z3.And(Wn > 0, lhs < rhs) if strict else z3.And(Wn >= 0, lhs <= rhs)
        # -sqrt(D) <= W  <=>  sqrt(D) >= -W  <=>  W >= 0 or D >= W^2
        return z3.Or(Wn > 0, lhs > rhs) if strict else z3.Or(Wn >= 0, lhs >= rhs)

    def cmp_le_int(self, n, strict=False):
        """value <= n (or < n): z3 Bool, n a z3 Int term / int"""
        # value <= n  <=>  A + c sqrt(D) <= B n (B>0)   /  >= B n (B<0)
        An, Ad = self.A.num, self.A.den
        Wn = self.B * n * Ad - An          # W = B n - A = Wn / Ad
        if self.b_pos:
            return self._le(Wn, Ad, strict)
        # B < 0: value <= n  <=>  c sqrt(D) >= W  <=>  not (c sqrt(D) < W)
        return z3.Not(self._le(Wn, Ad, not strict))

    def ceil_constraints(self, n):
        return z3.And(z3.Not(self.cmp_le_int(n - 1)), self.cmp_le_int(n))

    def approx_value(self, model):
        A = Fraction(engine.model_value(model, self.A.num), self.A.den)
        D = Fraction(engine.model_value(model, self.D.num), self.D.den)
        B = engine.model_value(model, self.B)
        return (float(A) + self.c * math.sqrt(max(0.0, float(D)))) / B


def _le_py(A, c, D, B, n, strict=False):
    """exact (Fractions/ints): (A + c*sqrt(D))/B <= n  (or < n)"""
    W = B * n - A

    def csqrt_le(W, strict):
        if c > 0:
            return (W > 0 and D < W * W) if strict else (W >= 0 and D <= W * W)
        return (W > 0 or D > W * W) if strict else (W >= 0 or D >= W * W)
    if B > 0:
        return csqrt_le(W, strict)
    return not csqrt_le(W, not strict)


class LazyCeil:
    """ceil(x) for x a quadratic root (RootFrac) or a rational with symbolic denominator (SymFrac), kept lazy:
    comparisons with integers become comparisons of x itself (no fresh variable); the integer is materialised only
    when it is used as a number, trying the harness' hint first, then solver-guided candidates in a small range."""

    def __init__(self, x, owner):
        self.x = x
        self.owner = owner
        self._val = None

    # x <= n (n: int / z3 Int term)
    def x_le(self, n, strict=False):
        if isinstance(self.x, RootFrac):
            return self.x.cmp_le_int(n, strict)
        p, q = self.x.p, self.x.q          # q > 0
        return (p < n * q) if strict else (p <= n * q)

    def is_term(self, n):
        return z3.And(z3.Not(self.x_le(n - 1)), self.x_le(n))

    @staticmethod
    def _int_term(o):
        if isinstance(o, bool):
            o = int(o)
        if isinstance(o, int):
            return z3.IntVal(o)
        if isinstance(o, SymInt):
            return o.t
        if isinstance(o, SymQ) and o.den == 1:
            return o.num
        return None

    def _cmp(self, o, op):
        if self._val is not None:
            return getattr(self._val, "__%s__" % op)(o.value() if isinstance(o, LazyCeil) else o)
        if isinstance(o, LazyCeil):
            return getattr(self.value(), "__%s__" % op)(o.value())
        c = self._int_term(o)
        if c is None:
            return getattr(self.value(), "__%s__" % op)(o)
        t = {"le": self.x_le(c), "lt": self.x_le(c - 1), "gt": z3.Not(self.x_le(c)), "ge": z3.Not(self.x_le(c - 1)),
             "eq": self.is_term(c), "ne": z3.Not(self.is_term(c))}[op]
        return mkbool(t)

    def __le__(self, o):
        return self._cmp(o, "le")

    def __lt__(self, o):
        return self._cmp(o, "lt")

    def __gt__(self, o):
        return self._cmp(o, "gt")

    def __ge__(self, o):
        return self._cmp(o, "ge")

    def __eq__(self, o):
        return self._cmp(o, "eq")

    def __ne__(self, o):
        return self._cmp(o, "ne")

    def __hash__(self):
        return id(self)

    def exact_ceil(self, model):
        if isinstance(self.x, RootFrac):
            x = self.x
            A = Fraction(engine.model_value(model, x.A.num), x.A.den)
            D = Fraction(engine.model_value(model, x.D.num), x.D.den)
            B = engine.model_value(model, x.B)
            k = math.ceil((float(A) + x.c * math.sqrt(max(0.0, float(D)))) / B) if abs(float(D)) < 1e300 else 0
            for _ in range(200):
                if not _le_py(A, x.c, D, B, k):
                    k += 1
                elif _le_py(A, x.c, D, B, k - 1):
                    k -= 1
                else:
                    return k
            lo, hi = -(1 << 80), (1 << 80)      # bisection as a last resort
            while hi - lo > 1:
                mid = (lo + hi) // 2
                if _le_py(A, x.c, D, B, mid):
                    hi = mid
                else:
                    lo = mid
            return hi
        pv, qv = engine.model_value(model, self.x.p), engine.model_value(model, self.x.q)
        return -((-pv) // qv)

    def value(self):
        if self._val is not None:
            return self._val
        r = engine.cur()
        small = self.owner.small
        for cand in self.owner.hints:
            if r.branch(self.is_term(z3.IntVal(cand))):
                self._val = SymQ(z3.IntVal(cand), 1, "mp", Fraction(abs(cand)))
                return self._val
        if r.branch(z3.And(z3.Not(self.x_le(z3.IntVal(-small - 1))), self.x_le(z3.IntVal(small)))):
            while True:
                k = r.guided(lambda m: max(-small, min(small, self.exact_ceil(m))))
                if r.branch(self.is_term(z3.IntVal(k))):
                    self._val = SymQ(z3.IntVal(k), 1, "mp", Fraction(abs(k)))
                    return self._val
        n = r.fresh_int("ceil")
        r.assume(self.is_term(n))
        self.owner.ceils.append(n)
        self._val = SymQ(n, 1, "mp")
        return self._val

    def pysx_int(self):
        v = self.value()
        return SymInt(v.num, bound=None if v.bound is None else int(v.bound))

    # arithmetic: materialise
    def __add__(self, o):
        return self.value() + o

    __radd__ = __add__

    def __sub__(self, o):
        return self.value() - o

    def __rsub__(self, o):
        return o - self.value()

    def __mul__(self, o):
        return self.value() * o

    __rmul__ = __mul__

    def __neg__(self):
        return -self.value()


class LmMpmath:
    """mpmath shim for calculate_lm: the generic exact-rational model plus roots."""

    def __init__(self, base, small_bound, hints=()):
        self.base = base
        self.mp = base.mp
        self.small = small_bound
        self.hints = list(hints)
        self.ceils = []

    def mpf(self, x=0):
        if isinstance(x, (SqrtVal, LinSqrt, RootFrac, LazyCeil)):
            return x
        return self.base.mpf(x)

    def floor(self, x):
        return self.base.floor(x)

    def fabs(self, x):
        return abs(x)

    def sqrt(self, x):
        return SqrtVal(x)

    def ceil(self, x):
        if isinstance(x, LazyCeil):
            return x
        if isinstance(x, (RootFrac, SymFrac)):
            return LazyCeil(x, self)
        if isinstance(x, SymInt):
            return SymQ.of(x, "mp")
        if isinstance(x, int):
            return self.base.mpf(x)
        return self.base.ceil(x)
