"""sqrt over the reals: a fresh non-negative real r with r*r == x (exact; NRA)."""
import z3
from . import engine
from .values import SymReal


def real_sqrt(x):
    r = engine.cur()
    if (x < 0):
        raise ValueError("math domain error")
    s = r.fresh_real("sqrt")
    r._add(z3.And(s >= 0, s * s == x.t))
    return SymReal(s)
