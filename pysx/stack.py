"""Shim-loading of the four serial/motion modules with their cross-references rewired."""
from . import loader, shims


class NullLogger:
    def __init__(self):
        self.records = []

    def _log(self, level, msg, *a, **k):
        self.records.append((level, msg))

    def error(self, msg, *a, **k):
        self._log("error", msg)

    def info(self, msg, *a, **k):
        self._log("info", msg)

    def warning(self, msg, *a, **k):
        self._log("warning", msg)

    def debug(self, msg, *a, **k):
        self._log("debug", msg)


def load_legacy(extra_serial=None, extra_motion=None):
    ov = shims.std_overrides(real_tower=False)
    ovs = dict(ov)
    ovs["logger"] = NullLogger()
    if extra_serial:
        ovs.update(extra_serial)
    es = loader.load_plotink("ebb_serial", ovs)
    ovm = dict(ov)
    ovm["ebb_serial"] = es
    if extra_motion:
        ovm.update(extra_motion)
    em = loader.load_plotink("ebb_motion", ovm, siblings={"ebb_serial": es})
    return es, em


def load_ebb3(extra_serial=None, extra_motion=None):
    ov = shims.std_overrides(real_tower=False)
    ovs = dict(ov)
    if extra_serial:
        ovs.update(extra_serial)
    e3 = loader.load_plotink("ebb3_serial", ovs)
    ovm = dict(ov)
    ovm["ebb3_serial"] = e3
    if extra_motion:
        ovm.update(extra_motion)
    m3 = loader.load_plotink("ebb3_motion", ovm, siblings={"ebb3_serial": e3})
    assert m3.EBBMotionWrap.__mro__[1] is e3.EBB3, "EBBMotionWrap must derive from the shim-loaded EBB3"
    return e3, m3
