"""Shared pieces for the ebb_calc checks (C01, C02, C03, C17): loading, precision side-conditions."""
import z3

from . import loader, shims
from .values import PREC, SymInt

M31 = 1 << 31


def load_ebb_calc():
    ov = shims.std_overrides(real_tower=False)
    ov["mpmath"] = shims.MpmathShim()
    return loader.load_plotink("ebb_calc", ov)


def load_ebb_motion(ebb_calc_mod):
    ov = shims.std_overrides(real_tower=False)
    ov["ebb_calc"] = ebb_calc_mod
    return loader.load_plotink("ebb_motion", ov)


def begin_path():
    """Reset the arithmetic model state at the start of a path: ambient mpmath precision unknown."""
    PREC.reset(ambient=None)


def zabs(t):
    return z3.If(t >= 0, t, -t)


def precision_obligations(run, tag):
    """Discharge the exactness side-conditions logged by the arithmetic model on this path.

    * operations whose exactness was not implied by interval bounds: prove |numerator| < 2^prec;
    * mp operations performed at the caller's ambient precision (the code had not set one): ask for
      inputs and an ambient mantissa size B = 2^P0 >= 16 for which some operand is not representable.
    Counterexamples are 'soft': they are replayed on the real code (with the ambient precision set from
    the model) and only a reproduced wrong result is a violation."""
    done = set()
    for (what, kind, num, den, prec) in PREC.inexact_ops:
        key = (str(num), den, prec)
        if key in done:
            continue
        done.add(key)
        run.prove("%s:exact[%s,%s,%d bits]" % (tag, kind, what, prec), zabs(num) < (1 << prec), soft=True)
    if PREC.ambient_ops:
        b = run.int("ambient_B", 16, 1 << 200)
        # one operand that is not representable with a B-sized mantissa is enough; try the syntactically
        # simplest operands one at a time under a small resource limit (any 'sat' decides)
        seen, ops = set(), []
        for (what, num, den) in PREC.ambient_ops:
            k = str(num)
            if k not in seen:
                seen.add(k)
                ops.append((len(k), what, num))
        ops.sort(key=lambda o: o[0])
        verdicts = []
        for (_n, what, num) in ops[:6]:
            v = run.prove("%s:independent-of-ambient-precision" % tag,
                          z3.Not(z3.And(zabs(num) >= 2 * b.t, num % 2 == 1)), soft=True, rlimit=30_000_000)
            verdicts.append(v)
            if v == "sat":
                break
    from fractions import Fraction
    for (diff, den, e) in PREC.robust_cmps:
        # |diff/den| > e  <=>  |diff| * e.den > e.num * den
        e = Fraction(e)
        run.prove("%s:comparison-robust-to-rounding" % tag, zabs(diff) * e.denominator > e.numerator * den, soft=True)
    for f in PREC.flags:
        run.prove("%s:model-flag[%s:%s]" % (tag, f["kind"], f["what"]), z3.BoolVal(False), soft=True)


def trunc2(a):
    """trunc(a/2) as a z3 term (a: z3 Int)."""
    return z3.If(a >= 0, a / 2, -((-a) / 2))


def trunc6(a):
    return z3.If(a >= 0, a / 6, -((-a) / 6))


def py_trunc_div(a, d):
    q = abs(a) // d
    return q if a >= 0 else -q
