"""Shims bound over module globals of the shim-loaded repository modules.

Only what the code calls *at the C boundary* is replaced (int, float, round, min, max, str, math,
mpmath ...).  Every shim falls through to the real builtin for ordinary concrete arguments."""
import builtins
import math as _math
from fractions import Fraction

import z3

from . import engine
from .values import (SymBool, SymInt, SymQ, SymReal, PREC, mkbool, zint, zreal, trunc_div, float_decimal)


def is_sym(x):
    from .strs import SymStr
    from .floors import SymFloor
    from .fracs import SymFrac
    return isinstance(x, (SymBool, SymInt, SymQ, SymReal, SymStr, SymFloor, SymFrac))


# ----------------------------------------------------------------------------------------------
# builtins
# ----------------------------------------------------------------------------------------------
class _IntShim:
    """Replacement for the name ``int`` in module globals: callable like int, keeps class methods."""

    def __call__(self, x=0, base=None):
        from .strs import SymStr
        from .tokens import parse_number_token, has_token
        from .floors import SymFloor
        from .fracs import SymFrac
        if base is not None:
            if isinstance(x, SymStr):
                return x.to_int(base)
            if isinstance(x, str) and has_token(x):
                raise ValueError("int() of token string with base")
            return builtins.int(x, base)
        if isinstance(x, SymInt):
            return x
        if hasattr(x, "pysx_int"):
            return x.pysx_int()
        if isinstance(x, SymBool):
            return SymInt(z3.If(x.t, 1, 0), bound=1)
        if isinstance(x, SymQ):
            return x.trunc_int()
        if isinstance(x, SymFrac):
            return x.trunc_int()
        if isinstance(x, SymFloor):
            return x
        if isinstance(x, SymReal):
            raise NotImplementedError("int() of a symbolic real")
        if isinstance(x, SymStr):
            return x.to_int(10)
        if isinstance(x, str) and has_token(x):
            return parse_number_token(x, "int")
        return builtins.int(x)

    @staticmethod
    def from_bytes(seq, byteorder="big", *, signed=False):
        seq = list(seq)
        if not builtins.any(isinstance(b, SymInt) for b in seq):
            return builtins.int.from_bytes(seq, byteorder=byteorder, signed=signed)
        return int_from_bytes(seq, byteorder, signed)

    def __instancecheck__(self, obj):
        return isinstance(obj, (builtins.int, SymInt))


int_shim = _IntShim()


def int_to_bytes(v, length, byteorder="big", signed=False):
    """Model of int.to_bytes for a SymInt: tuple of SymInt bytes (each 0..255).
    Raises OverflowError on the paths where the value does not fit (as CPython does)."""
    r = engine.cur()
    lo, hi = (-(1 << (8 * length - 1)), (1 << (8 * length - 1)) - 1) if signed else (0, (1 << (8 * length)) - 1)
    if not (v >= lo):
        raise OverflowError("int too big to convert" if signed else "can't convert negative int to unsigned")
    if not (v <= hi):
        raise OverflowError("int too big to convert")
    u = v.t % (1 << (8 * length))          # two's complement image
    out = []
    for i in range(length):
        out.append(SymInt((u / (1 << (8 * i))) % 256, bound=255))   # little-endian order
    if byteorder == "big":
        out.reverse()
    elif byteorder != "little":
        raise ValueError("byteorder must be either 'little' or 'big'")
    return tuple(out)


def int_from_bytes(seq, byteorder="big", signed=False):
    seq = list(seq)
    for b in seq:
        if isinstance(b, SymInt):
            if not ((b >= 0) & (b <= 255) if isinstance((b >= 0), SymBool) or isinstance((b <= 255), SymBool)
                    else (b >= 0 and b <= 255)):
                raise ValueError("bytes must be in range(0, 256)")
        else:
            if not 0 <= b <= 255:
                raise ValueError("bytes must be in range(0, 256)")
    if byteorder == "big":
        seq = seq[::-1]
    elif byteorder != "little":
        raise ValueError("byteorder must be either 'little' or 'big'")
    total = z3.IntVal(0)
    for i, b in enumerate(seq):
        total = total + zint(b) * (1 << (8 * i))
    n = len(seq)
    if signed and n:
        total = z3.If(total >= (1 << (8 * n - 1)), total - (1 << (8 * n)), total)
    return SymInt(total, bound=1 << (8 * n))


def float_shim(x=0.0):
    from .strs import SymStr
    from .tokens import parse_number_token, has_token
    if isinstance(x, (SymReal,)):
        return x
    if isinstance(x, SymQ):
        return x
    if isinstance(x, SymInt):
        return SymQ.of(x, kind="f")._finish(SymQ.of(x, kind="f"), None, "float(int)")
    if isinstance(x, SymStr):
        return x.to_float()
    if isinstance(x, str) and has_token(x):
        return parse_number_token(x, "float")
    return builtins.float(x)


def float_shim_real(x=0.0):
    """float() for the real tower: ints/Fractions stay exact (floats model reals)."""
    from .strs import SymStr
    from .tokens import parse_number_token, has_token
    if isinstance(x, (SymReal, SymQ, SymInt)):
        return SymReal.of(x)
    if isinstance(x, SymStr):
        return x.to_float()
    if isinstance(x, str) and has_token(x):
        return parse_number_token(x, "float")
    if isinstance(x, Fraction):
        return x
    return builtins.float(x)


def ord_shim(c):
    from .strs import SymStr
    if isinstance(c, SymStr):
        if len(c.e) != 1:
            raise TypeError("ord() expected a character, but string of length %d found" % len(c.e))
        e = c.e[0]
        if isinstance(e, str):
            return builtins.ord(e)
        if isinstance(e, z3.ExprRef):
            return SymInt(e, lo=0, hi=0x10FFFF)
        raise TypeError("ord() of an opaque numeral token")
    return builtins.ord(c)


def chr_shim(i):
    from .strs import SymStr
    if isinstance(i, SymInt):
        t = z3.simplify(i.t)
        if z3.is_int_value(t):
            return builtins.chr(t.as_long())
        return SymStr((i.t,))
    return builtins.chr(i)


def round_shim(x, nd=None):
    if isinstance(x, (SymInt, SymQ, SymReal)):
        return x.__round__(nd) if nd is not None else x.__round__()
    if nd is None:
        return builtins.round(x)
    return builtins.round(x, nd)


def _ite(c, a, b):
    """If-then-else on symbolic numbers without forking."""
    if isinstance(c, bool):
        return a if c else b
    if isinstance(a, SymReal) or isinstance(b, SymReal) or isinstance(a, float) or isinstance(b, float):
        return SymReal(z3.If(c.t, zreal(a), zreal(b)))
    if isinstance(a, SymQ) or isinstance(b, SymQ) or isinstance(a, Fraction) or isinstance(b, Fraction):
        qa, qb = SymQ.of(a), SymQ.of(b)
        g = qa.den * qb.den // _math.gcd(qa.den, qb.den)
        bd = None if qa.bound is None or qb.bound is None else builtins.max(qa.bound, qb.bound)
        return SymQ(z3.If(c.t, qa.num * (g // qa.den), qb.num * (g // qb.den)), g,
                    qa.kind or qb.kind, bd, builtins.max(qa.err, qb.err))
    ba = a.bound if isinstance(a, SymInt) else abs(a)
    bb = b.bound if isinstance(b, SymInt) else abs(b)
    bd = None if ba is None or bb is None else builtins.max(ba, bb)
    return SymInt(z3.If(c.t, zint(a), zint(b)), bound=bd)


def _numeric_sym(x):
    return isinstance(x, (SymInt, SymQ, SymReal))


def max_shim(*args, **kw):
    if len(args) == 1 and not kw:
        args = tuple(args[0])
    if kw or not builtins.any(_numeric_sym(a) for a in args) or \
            builtins.any(isinstance(a, float) and _math.isinf(a) for a in args):
        return _minmax_fallback(builtins.max, args, kw)
    best = args[0]
    for a in args[1:]:
        c = a > best
        if isinstance(c, bool):
            best = a if c else best
        elif isinstance(a, float) and a != a or isinstance(best, float) and best != best:
            best = best          # NaN operand: every comparison is False (CPython keeps the first)
        else:
            best = _ite(c, a, best)
    return best


def min_shim(*args, **kw):
    if len(args) == 1 and not kw:
        args = tuple(args[0])
    if kw or not builtins.any(_numeric_sym(a) for a in args) or \
            builtins.any(isinstance(a, float) and _math.isinf(a) for a in args):
        return _minmax_fallback(builtins.min, args, kw)
    best = args[0]
    for a in args[1:]:
        c = a < best
        best = _ite(c, a, best) if not isinstance(c, bool) else (a if c else best)
    return best


def _minmax_fallback(fn, args, kw):
    if len(args) == 1 and not kw:
        return args[0]
    # +-inf operands: drop them when a finite symbolic operand decides
    fin = [a for a in args if not (isinstance(a, float) and _math.isinf(a))]
    if len(fin) != len(args) and builtins.any(_numeric_sym(a) for a in fin) and not kw:
        infs = [a for a in args if isinstance(a, float) and _math.isinf(a)]
        if fn is builtins.min and builtins.all(i > 0 for i in infs):
            return min_shim(*fin) if len(fin) > 1 else fin[0]
        if fn is builtins.max and builtins.all(i < 0 for i in infs):
            return max_shim(*fin) if len(fin) > 1 else fin[0]
    return fn(*args, **kw)


def abs_shim(x):
    return abs(x)


def str_shim(x=""):
    from .strs import SymStr
    if isinstance(x, SymStr):
        return x
    if isinstance(x, (SymInt, SymQ, SymReal)):
        return format(x, "")
    return builtins.str(x)


def bool_shim(x=False):
    from .strs import SymStr
    if isinstance(x, SymStr):
        return x.length() > 0
    if isinstance(x, SymBool):
        return x
    return builtins.bool(x)


def len_shim(x):
    from .strs import SymStr
    return builtins.len(x)


# ----------------------------------------------------------------------------------------------
# math
# ----------------------------------------------------------------------------------------------
class MathShim:
    inf = _math.inf
    pi = _math.pi
    nan = _math.nan

    def __init__(self, real_tower=True):
        self.real_tower = real_tower

    def __getattr__(self, name):
        return getattr(_math, name)

    @staticmethod
    def floor(x):
        if hasattr(x, "__floor__") and is_sym(x):
            return x.__floor__()
        return _math.floor(x)

    @staticmethod
    def ceil(x):
        if hasattr(x, "__ceil__") and is_sym(x):
            return x.__ceil__()
        return _math.ceil(x)

    @staticmethod
    def fabs(x):
        if is_sym(x):
            return abs(x)
        return _math.fabs(x)

    @staticmethod
    def sqrt(x):
        if isinstance(x, SymReal):
            from .roots import real_sqrt
            return real_sqrt(x)
        if isinstance(x, Fraction):
            from .roots import real_sqrt
            return real_sqrt(SymReal.of(x))
        return _math.sqrt(x)

    @staticmethod
    def isclose(a, b, rel_tol=1e-09, abs_tol=0.0):
        if is_sym(a) or is_sym(b) or is_sym(rel_tol) or is_sym(abs_tol):
            # |a-b| <= max(rel_tol * max(|a|, |b|), abs_tol), over the reals
            a, b = SymReal.of(a), SymReal.of(b)
            d = abs(a - b)
            big = max_shim(abs(a), abs(b))
            lim = max_shim(SymReal.of(rel_tol) * big, SymReal.of(abs_tol))
            return d <= lim
        return _math.isclose(a, b, rel_tol=rel_tol, abs_tol=abs_tol)


# ----------------------------------------------------------------------------------------------
# mpmath
# ----------------------------------------------------------------------------------------------
def dps_to_prec(n):
    # mpmath.libmp.libmpf.dps_to_prec
    return builtins.max(1, builtins.int(builtins.round((builtins.int(n) + 1) * 3.3219280948873626)))


class _MpCtx:
    @property
    def dps(self):
        if PREC.mp_prec is None:
            raise NotImplementedError("reading the ambient mp.dps")
        return builtins.max(1, builtins.int(builtins.round(builtins.int(PREC.mp_prec) / 3.3219280948873626) - 1))

    @dps.setter
    def dps(self, n):
        PREC.mp_prec = dps_to_prec(n)

    @property
    def prec(self):
        return PREC.mp_prec

    @prec.setter
    def prec(self, n):
        PREC.mp_prec = builtins.int(n)


class _WorkPrec:
    def __init__(self, prec):
        self.new = prec

    def __enter__(self):
        self.old = PREC.mp_prec
        PREC.mp_prec = self.new

    def __exit__(self, *a):
        PREC.mp_prec = self.old
        return False


def _inexact_floor(q, which):
    """floor()/ceil() of an mp value that carries a rounding error bound e: the computed value v satisfies
    |v - n/d| <= e, so the result is any integer k with floor(n/d - e) <= k <= floor(n/d + e) (resp. ceil).
    The choice is left to the solver; a counterexample in which it differs from the exact floor is
    rounding-dependent and is believed only when it replays on the real code."""
    from . import engine
    r = engine.cur()
    e = Fraction(q.err)
    k = r.fresh_int(which)
    n, d = q.num, q.den
    # lo = n/d - e, hi = n/d + e, over the common denominator d*e.den
    D = d * e.denominator
    lo = n * e.denominator - e.numerator * d
    hi = n * e.denominator + e.numerator * d
    if which == "floor":
        r.assume(z3.And(k * D <= hi, (k + 1) * D > lo))
    else:
        r.assume(z3.And(k * D >= lo, (k - 1) * D < hi))
    exact = q.floor_int().t if which == "floor" else q.ceil_int().t
    r.rounding_dependent(k != exact)
    return SymQ(k, 1, "mp", None if q.bound is None else q.bound + 1, 0)


class MpmathShim:
    """Model of the few mpmath entry points ebb_calc uses.  Values are exact rationals (SymQ /
    SymFrac / SymRoot) tagged kind='mp'; PrecisionState tracks the precision in force."""

    def __init__(self):
        self.mp = _MpCtx()
        self.mp.workdps = self.workdps
        self.mp.workprec = self.workprec

    @staticmethod
    def workdps(n):
        return _WorkPrec(dps_to_prec(n))

    @staticmethod
    def workprec(n):
        return _WorkPrec(builtins.int(n))

    def mpf(self, x=0):
        if isinstance(x, str):
            x = Fraction(x)
        if isinstance(x, float):
            x = Fraction(x)
        from .fracs import SymFrac
        if isinstance(x, SymFrac):
            return x
        q = SymQ.of(x)
        r = SymQ(q.num, q.den, "mp", q.bound, q.err)
        return r._finish(r, None, "mpf()")

    @staticmethod
    def floor(x):
        from .fracs import SymFrac
        if isinstance(x, (SymFrac,)):
            return x.floor_mp()
        q = SymQ.of(x)
        if q.err:
            return _inexact_floor(q, "floor")
        f = q.floor_int()
        return SymQ(f.t, 1, "mp", None if q.bound is None else q.bound + 1, 0)

    @staticmethod
    def ceil(x):
        from .fracs import SymFrac
        if isinstance(x, (SymFrac,)):
            return x.ceil_mp()
        q = SymQ.of(x)
        if q.err:
            return _inexact_floor(q, "ceil")
        f = q.ceil_int()
        return SymQ(f.t, 1, "mp", None if q.bound is None else q.bound + 1, 0)

    @staticmethod
    def fabs(x):
        return abs(x)

    @staticmethod
    def sqrt(x):
        from .fracs import mp_sqrt
        return mp_sqrt(x)


def std_overrides(real_tower):
    """Standard global rebindings for a shim-loaded module."""
    d = {
        "int": int_shim,
        "float": float_shim_real if real_tower else float_shim,
        "round": round_shim,
        "ord": ord_shim,
        "chr": chr_shim,
        "min": min_shim,
        "max": max_shim,
        "str": str_shim,
        "bool": bool_shim,
        "math": MathShim(real_tower),
    }
    if real_tower:
        d["sqrt"] = d["math"].sqrt          # ``from math import sqrt, isclose``
        d["isclose"] = d["math"].isclose
    from .reshim import ReShim
    d["re"] = ReShim()          # only matters for modules that import re (CPython's matcher rejects symbolic strings)
    return d
