"""Environment models for the serial layers: fake port, conforming-board reply generators, decoding of
what was written (literal text + tokens -> terms)."""
from .strs import SymStr, SymBytes, from_token_str, Atom, NumTok
from .tokens import has_token
from .values import SymInt


def decode_payload(data):
    """bytes / SymBytes written to the port -> SymStr (number tokens become NumTok elements)."""
    if isinstance(data, SymBytes):
        return data.s
    if isinstance(data, (bytes, bytearray)):
        s = bytes(data).decode("latin-1")
        return from_token_str(s) if has_token(s) else SymStr(tuple(s))
    if isinstance(data, (str, SymStr)):
        raise TypeError("unicode strings are not supported, please encode to bytes: %r" % (data,))
    raise TypeError("port.write needs bytes, got %s" % type(data).__name__)


def pieces(sym):
    """SymStr -> list of pieces: literal str runs, NumTok, Atom or single symbolic characters (z3 terms)."""
    out, lit = [], []
    for c in sym.e:
        if isinstance(c, str):
            lit.append(c)
        else:
            if lit:
                out.append("".join(lit))
                lit = []
            out.append(c)
    if lit:
        out.append("".join(lit))
    return out


def literal_prefix(sym):
    p = []
    for c in sym.e:
        if not isinstance(c, str):
            break
        p.append(c)
    return "".join(p)


def fields(payload):
    """Written SymStr -> list of comma-separated fields (literal str or z3 Int term), or None if the text is
    not of the form  field(,field)*<CR>  with each field a literal or exactly one formatted integer."""
    pcs = pieces(payload)
    if not pcs or not isinstance(pcs[-1], str) or not pcs[-1].endswith("\r"):
        return None
    pcs = list(pcs)
    pcs[-1] = pcs[-1][:-1]
    out = [""]
    for p in pcs:
        if isinstance(p, str):
            parts = p.split(",")
            for i, part in enumerate(parts):
                if i > 0:
                    out.append("")
                if part:
                    if not isinstance(out[-1], str):
                        return None
                    out[-1] += part
        elif isinstance(p, NumTok):
            if p.spec not in ("", "d") or not isinstance(p.num, SymInt) or out[-1] != "":
                return None
            out[-1] = p.num.t
        else:
            return None
    if any(isinstance(f, str) and ("\r" in f or "\n" in f) for f in out):
        return None
    return out


def expected_fields(cmd):
    """expected piece list -> field list"""
    out = [""]
    for p in cmd:
        if isinstance(p, bool):
            p = int(p)
        if isinstance(p, int):
            p = str(p)
        if isinstance(p, str):
            parts = p.split(",")
            for i, part in enumerate(parts):
                if i > 0:
                    out.append("")
                out[-1] += part
        else:
            assert out[-1] == ""
            out[-1] = p
    return out


def _isint(sx):
    try:
        int(sx)
        return str(int(sx)) == sx
    except ValueError:
        return False



class FakePort:
    """Duck-typed serial port.  ``responder(port)`` is called by readline() and returns the next line
    (bytes / SymBytes, b'' for a timeout) or raises; ``on_write(port, payload)`` may raise to model a
    write fault and may queue replies."""

    port = "/dev/ttyACM0"       # pyserial's Serial.port: the device path (several fake ports may share it, like re-plugged boards)
    name = "/dev/ttyACM0"

    def __init__(self, responder=None, on_write=None, sym=False):
        self.sym = sym          # return SymBytes even for concrete lines (needed when requests are SymStr)
        self.writes = []        # decoded payloads (SymStr), in order
        self.raw_writes = []
        self.n_reads = 0
        self.n_read_at_write = []
        self.closed = False
        self.resets = 0
        self.responder = responder
        self.on_write = on_write
        self.queue = []         # replies queued by on_write, consumed by the default responder
        self.events = []        # chronological log: ('w', payload) / ('r', line) / ('x', what)

    def write(self, data):
        payload = decode_payload(data)
        if self.on_write is not None:
            self.on_write(self, payload)
        self.writes.append(payload)
        self.raw_writes.append(data)
        self.n_read_at_write.append(self.n_reads)
        self.events.append(("w", payload))
        return len(payload)

    def readline(self):
        self.n_reads += 1
        if self.responder is not None:
            line = self.responder(self)
        elif self.queue:
            line = self.queue.pop(0)
        else:
            line = b""
        self.events.append(("r", line))
        if self.sym and isinstance(line, (bytes, bytearray)):
            txt = bytes(line).decode("latin-1")
            line = SymBytes(from_token_str(txt) if has_token(txt) else SymStr(tuple(txt)))
        return line

    def close(self):
        self.closed = True
        self.events.append(("x", "close"))

    def reset_input_buffer(self):
        self.resets += 1
        self.queue = []

    def flushInput(self):
        self.reset_input_buffer()

    flush = reset_input_buffer


# replies of a conforming board, keyed by command name -------------------------------------------------
LEGACY_NO_OK = ("a", "i", "mr", "pi", "qm", "qg", "v")
LEGACY_QUERY_DATA = {
    "QP": "1", "QB": "0", "QS": "12,-34", "QC": "0394,0300", "QL": "5", "QT": "", "QE": "0,0", "QM": "QM,0,0,0,0",
    "PI": "PI,1", "V": "EBBv13_and_above EB Firmware Version 2.8.1", "QG": "3E", "QR": "1", "QU": "0",
}
FUTURE_QUERY_DATA = {
    "QP": "QP,1", "QB": "QB,0", "QS": "QS,12,-34", "QC": "QC,0394,0300", "QL": "QL,5", "QT": "QT,", "QE": "QE,0,0",
    "PI": "PI,1", "QG": "QG,3E", "V": "EBBv13_and_above EB Firmware Version 3.0.2",
}


def command_name(payload):
    """Name (upper-case letters before the first ',' or CR) of a written request, from its literal prefix."""
    lit = literal_prefix(payload)
    name = lit.split(",")[0].strip()
    return name


def legacy_conforming(port, payload):
    """on_write handler: queue the replies a legacy-syntax board sends for this request."""
    name = command_name(payload)
    up = name.upper()
    if up in LEGACY_QUERY_DATA:
        port.queue.append((LEGACY_QUERY_DATA[up] + "\r\n").encode("ascii"))
        if name.lower() not in LEGACY_NO_OK:
            port.queue.append(b"OK\r\n")
    else:
        port.queue.append(b"OK\r\n")


def future_conforming(port, payload):
    """on_write handler: queue the reply an EBB3 board in 'future syntax' mode sends for this request."""
    name = command_name(payload)
    up = name.upper()
    if up in FUTURE_QUERY_DATA and not (up == "QL" and False):
        port.queue.append((FUTURE_QUERY_DATA[up] + "\r\n").encode("ascii"))
    else:
        port.queue.append((name + "\r\n").encode("ascii"))
