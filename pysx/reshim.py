"""A small regular-expression engine over symbolic strings (SymStr).

If code under analysis hands a symbolic string to ``re`` (CPython's matcher is C code and would raise
TypeError), the module global ``re`` is rebound to this shim: the pattern is parsed by CPython's own
``re._parser`` and matched by a backtracking interpreter whose character tests fork the path through
the engine, so along one path the matcher behaves exactly like a concrete one.  Supported: literals,
classes, '.', alternation, groups (capturing / non-capturing), greedy and lazy repeats, look-ahead
(positive / negative), anchors; ``sub``, ``subn``, ``search``, ``match``, ``fullmatch``, ``findall``,
``split`` (no groups), ``compile``.  Anything else raises NotImplementedError (reported as a harness
error, never as 'held').  Concrete subjects are passed to the real module."""
import re as _re

try:
    import re._parser as _parser
    import re._constants as _c
except ImportError:            # pragma: no cover
    import sre_parse as _parser
    import sre_constants as _c

from .strs import SymStr, Atom, ch_eq, ch_in, decide, zor, zand, elems

_DIGITS = tuple(range(48, 58))
_SPACES = (9, 10, 11, 12, 13, 32)
_WORD = tuple(list(range(48, 58)) + list(range(65, 91)) + list(range(97, 123)) + [95])


def _class_term(items, ch, ignorecase=False):
    """z3/Python Boolean: character ch is in the class described by the IN item list"""
    negate = False
    alts = []
    for op, av in items:
        if op is _c.NEGATE:
            negate = True
        elif op is _c.LITERAL:
            alts.append(ch_eq(ch, chr(av)))
        elif op is _c.RANGE:
            lo, hi = av
            alts.append(ch_in(ch, range(lo, hi + 1)))
        elif op is _c.CATEGORY:
            table = {_c.CATEGORY_DIGIT: (_DIGITS, False), _c.CATEGORY_NOT_DIGIT: (_DIGITS, True),
                     _c.CATEGORY_SPACE: (_SPACES, False), _c.CATEGORY_NOT_SPACE: (_SPACES, True),
                     _c.CATEGORY_WORD: (_WORD, False), _c.CATEGORY_NOT_WORD: (_WORD, True)}
            if av not in table:
                raise NotImplementedError("regex category %r" % (av,))
            codes, neg = table[av]
            t = ch_in(ch, codes)
            alts.append(_not(t) if neg else t)
        else:
            raise NotImplementedError("regex class item %r" % (op,))
    t = zor(alts)
    return _not(t) if negate else t


def _not(t):
    import z3
    if isinstance(t, bool):
        return not t
    return z3.Not(t)


class _Matcher:
    META = tuple(ord(c) for c in ".^$*+?{}[]\\|()")

    def __init__(self, pattern, flags=0):
        self.sym_lit = {}
        if isinstance(pattern, SymStr) and not pattern.is_concrete():
            # symbolic characters in the pattern: a character that may be a metacharacter is concretised (forking);
            # every other symbolic character becomes a private-use placeholder that stands for itself (a literal)
            out = []
            r = None
            for c in pattern.e:
                if isinstance(c, str):
                    out.append(c)
                    continue
                if isinstance(c, Atom):
                    raise NotImplementedError("numeral atom inside a regular expression")
                if decide(ch_in(c, self.META)):
                    from . import engine
                    out.append(chr(engine.cur().concretize(c, limit=len(self.META) + 1)))
                else:
                    ph = 0xE000 + len(self.sym_lit)
                    self.sym_lit[ph] = c
                    out.append(chr(ph))
            pattern = "".join(out)
        elif isinstance(pattern, SymStr):
            pattern = pattern.concrete_str()
        self.pattern = pattern
        self.flags = flags
        self.tree = _parser.parse(pattern, flags)
        self.ngroups = self.tree.state.groups
        if flags & ~(_re.UNICODE.value if hasattr(_re.UNICODE, "value") else int(_re.UNICODE)) & ~int(_re.DOTALL) & ~int(_re.ASCII):
            if flags & int(_re.IGNORECASE) or flags & int(_re.MULTILINE) or flags & int(_re.VERBOSE):
                raise NotImplementedError("regex flags %r" % (flags,))

    # backtracking interpreter: generator of (end position, groups)
    def _m(self, items, k, s, i, groups):
        if k == len(items):
            yield i, groups
            return
        op, av = items[k]
        n = len(s)
        if op is _c.LITERAL:
            lit = self.sym_lit.get(av, None)
            if i < n and decide(ch_eq(s[i], chr(av) if lit is None else lit)):
                yield from self._m(items, k + 1, s, i + 1, groups)
        elif op is _c.NOT_LITERAL:
            lit = self.sym_lit.get(av, None)
            if i < n and not decide(ch_eq(s[i], chr(av) if lit is None else lit)):
                yield from self._m(items, k + 1, s, i + 1, groups)
        elif op is _c.ANY:
            if i < n and (self.flags & int(_re.DOTALL) or not decide(ch_eq(s[i], "\n"))):
                yield from self._m(items, k + 1, s, i + 1, groups)
        elif op is _c.IN:
            if i < n and decide(_class_term(av, s[i])):
                yield from self._m(items, k + 1, s, i + 1, groups)
        elif op is _c.BRANCH:
            for alt in av[1]:
                for j, g in self._m(list(alt), 0, s, i, groups):
                    yield from self._m(items, k + 1, s, j, g)
        elif op is _c.SUBPATTERN:
            gid, _af, _df, sub = av
            for j, g in self._m(list(sub), 0, s, i, groups):
                if gid is not None:
                    g = dict(g)
                    g[gid] = (i, j)
                yield from self._m(items, k + 1, s, j, g)
        elif op in (_c.MAX_REPEAT, _c.MIN_REPEAT):
            lo, hi, sub = av
            hi = n - i + 1 if hi is _c.MAXREPEAT else hi
            sub = list(sub)

            def rep(count, pos, g):
                # yields (pos, groups) after `count` or more repetitions, greedy or lazy
                if op is _c.MIN_REPEAT and count >= lo:
                    yield pos, g
                if count < hi:
                    for j, g2 in self._m(sub, 0, s, pos, g):
                        if j == pos and count >= lo:
                            continue          # empty iteration: stop
                        yield from rep(count + 1, j, g2)
                if op is _c.MAX_REPEAT and count >= lo:
                    yield pos, g
            for j, g in rep(0, i, groups):
                yield from self._m(items, k + 1, s, j, g)
        elif getattr(_c, "POSSESSIVE_REPEAT", None) is not None and op is _c.POSSESSIVE_REPEAT:
            lo, hi, sub = av
            hi = n - i + 1 if hi is _c.MAXREPEAT else hi
            sub = list(sub)
            pos, g, count = i, groups, 0
            while count < hi:
                nxt = None
                for j, g2 in self._m(sub, 0, s, pos, g):
                    nxt = (j, g2)
                    break
                if nxt is None or nxt[0] == pos:
                    break
                pos, g = nxt
                count += 1
            if count >= lo:
                yield from self._m(items, k + 1, s, pos, g)
        elif getattr(_c, "ATOMIC_GROUP", None) is not None and op is _c.ATOMIC_GROUP:
            for j, g in self._m(list(av), 0, s, i, groups):
                yield from self._m(items, k + 1, s, j, g)
                break
        elif op is _c.ASSERT or op is _c.ASSERT_NOT:
            direction, sub = av
            if direction < 0:
                raise NotImplementedError("look-behind")
            found = False
            for _j, _g in self._m(list(sub), 0, s, i, groups):
                found = True
                break
            if found == (op is _c.ASSERT):
                yield from self._m(items, k + 1, s, i, groups)
        elif op is _c.AT:
            if av in (_c.AT_BEGINNING, _c.AT_BEGINNING_STRING):
                ok = i == 0
            elif av in (_c.AT_END_STRING,):
                ok = i == n
            elif av is _c.AT_END:
                ok = i == n or (i == n - 1 and decide(ch_eq(s[i], "\n")))
            else:
                raise NotImplementedError("anchor %r" % (av,))
            if ok:
                yield from self._m(items, k + 1, s, i, groups)
        else:
            raise NotImplementedError("regex construct %r" % (op,))

    def match_at(self, s, i):
        for j, g in self._m(list(self.tree), 0, s, i, {}):
            return j, g
        return None

    def search_from(self, s, start):
        for i in range(start, len(s) + 1):
            r = self.match_at(s, i)
            if r is not None:
                return i, r[0], r[1]
        return None


class SymMatch:
    def __init__(self, subject, start, end, groups):
        self._s, self._start, self._end, self._g = subject, start, end, groups

    def group(self, n=0):
        if n == 0:
            return SymStr(self._s[self._start:self._end])
        if n not in self._g:
            return None
        a, b = self._g[n]
        return SymStr(self._s[a:b])

    def start(self, n=0):
        return self._start if n == 0 else self._g[n][0]

    def end(self, n=0):
        return self._end if n == 0 else self._g[n][1]

    def span(self, n=0):
        return (self.start(n), self.end(n))

    def groups(self):
        return tuple(self.group(k) for k in sorted(self._g))


def _expand(repl, m):
    if callable(repl):
        return elems(repl(m))
    r = elems(repl)
    out = []
    i = 0
    while i < len(r):
        c = r[i]
        if c == "\\" and i + 1 < len(r) and isinstance(r[i + 1], str):
            nx = r[i + 1]
            if nx.isdigit():
                out.extend(m.group(int(nx)).e)
                i += 2
                continue
            if nx == "g":
                j = i + 2
                name = ""
                while r[j] != ">":
                    if r[j] != "<":
                        name += r[j]
                    j += 1
                out.extend(m.group(int(name)).e)
                i = j + 1
                continue
            out.append({"n": "\n", "t": "\t", "\\": "\\"}.get(nx, nx))
            i += 2
            continue
        out.append(c)
        i += 1
    return tuple(out)


class SymPattern:
    def __init__(self, pattern, flags=0):
        self.pattern, self.flags = pattern, flags
        self._real = _re.compile(pattern, flags) if isinstance(pattern, str) else None
        self._m = None

    def _matcher(self):
        if self._m is None:
            self._m = _Matcher(self.pattern, self.flags)
        return self._m

    def _sym(self, string):
        return self._real is None or (isinstance(string, SymStr) and not string.is_concrete())

    def _plain(self, string):
        return string.concrete_str() if isinstance(string, SymStr) else string

    def sub(self, repl, string, count=0):
        return self.subn(repl, string, count)[0]

    def subn(self, repl, string, count=0):
        if not self._sym(string) and not isinstance(repl, SymStr):
            return self._real.subn(repl, self._plain(string), count)
        s = tuple(elems(string))
        if any(isinstance(c, Atom) for c in s):
            raise NotImplementedError("regex on numeral atoms")
        out, pos, n, i = [], 0, 0, 0
        mt = self._matcher()
        while i <= len(s):
            if count and n >= count:
                break
            r = mt.match_at(s, i)
            if r is None:
                if i < len(s):
                    out.append(s[i])
                i += 1
                continue
            j, g = r
            out.extend(_expand(repl, SymMatch(s, i, j, g)))
            n += 1
            if j == i:
                if i < len(s):
                    out.append(s[i])
                i += 1
            else:
                i = j
        out.extend(s[i:])
        return SymStr(out), n

    def search(self, string, pos=0):
        if not self._sym(string):
            return self._real.search(self._plain(string), pos)
        s = tuple(elems(string))
        r = self._matcher().search_from(s, pos)
        return None if r is None else SymMatch(s, r[0], r[1], r[2])

    def match(self, string, pos=0):
        if not self._sym(string):
            return self._real.match(self._plain(string), pos)
        s = tuple(elems(string))
        r = self._matcher().match_at(s, pos)
        return None if r is None else SymMatch(s, pos, r[0], r[1])

    def fullmatch(self, string):
        if not self._sym(string):
            return self._real.fullmatch(self._plain(string))
        s = tuple(elems(string))
        for j, g in self._matcher()._m(list(self._matcher().tree), 0, s, 0, {}):
            if j == len(s):
                return SymMatch(s, 0, j, g)
        return None

    def findall(self, string):
        if not self._sym(string):
            return self._real.findall(self._plain(string))
        s = tuple(elems(string))
        out, i = [], 0
        while i <= len(s):
            r = self._matcher().search_from(s, i)
            if r is None:
                break
            a, b, g = r
            m = SymMatch(s, a, b, g)
            ng = self._matcher().ngroups - 1

            def grp(k):
                v = m.group(k)
                return SymStr(()) if v is None else v
            out.append(m.group(0) if ng == 0 else (grp(1) if ng == 1 else tuple(grp(k) for k in range(1, ng + 1))))
            i = b if b > a else a + 1
        return out

    def split(self, string, maxsplit=0):
        if not self._sym(string):
            return self._real.split(self._plain(string), maxsplit)
        if self._matcher().ngroups > 1:
            raise NotImplementedError("re.split with groups")
        s = tuple(elems(string))
        out, i, last = [], 0, 0
        while i <= len(s):
            r = self._matcher().search_from(s, i)
            if r is None or (maxsplit and len(out) >= maxsplit):
                break
            a, b, _g = r
            if b == a:
                i = a + 1
                continue
            out.append(SymStr(s[last:a]))
            last = i = b
        out.append(SymStr(s[last:]))
        return out


class ReShim:
    """stands in for the module ``re`` in a shim-loaded module"""

    def __getattr__(self, name):
        return getattr(_re, name)

    @staticmethod
    def compile(pattern, flags=0):
        return SymPattern(pattern, int(flags))

    @staticmethod
    def sub(pattern, repl, string, count=0, flags=0):
        return SymPattern(pattern, int(flags)).sub(repl, string, count)

    @staticmethod
    def subn(pattern, repl, string, count=0, flags=0):
        return SymPattern(pattern, int(flags)).subn(repl, string, count)

    @staticmethod
    def search(pattern, string, flags=0):
        return SymPattern(pattern, int(flags)).search(string)

    @staticmethod
    def match(pattern, string, flags=0):
        return SymPattern(pattern, int(flags)).match(string)

    @staticmethod
    def fullmatch(pattern, string, flags=0):
        return SymPattern(pattern, int(flags)).fullmatch(string)

    @staticmethod
    def findall(pattern, string, flags=0):
        return SymPattern(pattern, int(flags)).findall(string)

    @staticmethod
    def split(pattern, string, maxsplit=0, flags=0):
        return SymPattern(pattern, int(flags)).split(string, maxsplit)
