"""pysx engine: decision-prefix depth-first symbolic execution with z3.

A *harness* is an ordinary Python callable ``harness(run)``.  It creates symbolic
inputs through ``run`` (``run.int``, ``run.real`` ...), calls the real (shim-loaded)
functions of the repository on them and states obligations with ``run.prove``.
Whenever a symbolic Boolean reaches ``if`` / ``while`` / ``and`` / ``or`` / ``not``
its ``__bool__`` calls ``run.branch``; the engine decides with the solver which
sides are feasible under the current path condition, follows one and schedules the
other.  The harness is re-executed once per path with the recorded decision prefix.
"""
import os
import sys
import time
import itertools
from fractions import Fraction

import z3

TRACE = bool(os.environ.get("PYSX_TRACE"))


class PathEnd(BaseException):
    """Base class of engine control-flow exceptions (BaseException on purpose: the
    code under analysis contains bare ``except:`` / ``except Exception`` clauses)."""


class Infeasible(PathEnd):
    pass


class Truncated(PathEnd):
    pass


class SplitPoint(PathEnd):
    pass


_CUR = [None]


def cur():
    r = _CUR[0]
    if r is None:
        raise RuntimeError("symbolic value used outside an engine run")
    return r


def have_run():
    return _CUR[0] is not None


class Stats:
    FIELDS = ("paths", "truncated", "infeasible_ends", "feas_queries", "feas_unknown", "ob_unsat", "ob_sat",
              "ob_unknown", "solver_s", "max_depth", "model_hits", "split_roots")

    def __init__(self):
        for f in self.FIELDS:
            setattr(self, f, 0)
        self.reach = {}
        self.samples = []
        self.cex = []
        self.unknowns = []
        self.ob_names = {}
        self.notes = []

    def merge(self, o):
        for f in self.FIELDS:
            if f == "max_depth":
                self.max_depth = max(self.max_depth, o.max_depth)
            else:
                setattr(self, f, getattr(self, f) + getattr(o, f))
        for k, v in o.reach.items():
            self.reach[k] = self.reach.get(k, 0) + v
        for k, v in o.ob_names.items():
            d = self.ob_names.setdefault(k, {"unsat": 0, "sat": 0, "unknown": 0})
            for kk in d:
                d[kk] += v.get(kk, 0)
        self.samples.extend(o.samples)
        self.cex.extend(o.cex)
        self.unknowns.extend(o.unknowns)
        self.notes.extend(o.notes)
        return self


def model_value(model, term):
    """Concrete Python value (int / Fraction / bool) of a z3 term under a model."""
    v = model.eval(term, model_completion=True)
    if z3.is_int_value(v):
        return v.as_long()
    if z3.is_rational_value(v):
        return Fraction(v.numerator_as_long(), v.denominator_as_long())
    if z3.is_true(v):
        return True
    if z3.is_false(v):
        return False
    if z3.is_algebraic_value(v):
        a = v.approx(40)
        return Fraction(a.numerator_as_long(), a.denominator_as_long())
    return str(v)


DUMP_DIR = os.environ.get("PYSX_DUMP_DIR")      # debugging: write every obligation query as SMT-LIB2
_DUMP_N = [0]


class Config:
    def __init__(self, logic=None, feas_rlimit=20_000_000, ob_rlimit=200_000_000, max_decisions=400,
                 fresh_feas=False, ob_timeout_ms=900_000, feas_timeout_ms=60_000, max_cex_per_ob=6, max_paths=None,
                 max_alternatives=48, soft_alternatives=0, soft_samples=0, approx_rlimit=None, approx_timeout_ms=None,
                 falsify_samples=0, falsify_first_rlimit=30_000_000, falsify_first_ms=20_000, falsify_budget_s=90):
        self.logic = logic
        self.feas_rlimit = feas_rlimit
        self.ob_rlimit = ob_rlimit
        self.max_decisions = max_decisions
        self.fresh_feas = fresh_feas
        self.ob_timeout_ms = ob_timeout_ms
        self.feas_timeout_ms = feas_timeout_ms
        self.max_cex_per_ob = max_cex_per_ob
        self.max_paths = max_paths
        self.max_alternatives = max_alternatives
        self.soft_alternatives = soft_alternatives    # extra diverse models requested for each soft counterexample
        self.soft_samples = soft_samples              # ... plus models completed from randomly pinned inputs
        self.approx_rlimit = approx_rlimit            # effort cap for obligations on paths with rounding-dependent choices
        self.approx_timeout_ms = approx_timeout_ms
        self.falsify_samples = falsify_samples        # sub-box counterexample search when a query is not settled quickly
        self.falsify_first_rlimit = falsify_first_rlimit
        self.falsify_first_ms = falsify_first_ms
        self.falsify_budget_s = falsify_budget_s


def _mk_solver(logic, rlimit, timeout_ms=0):
    s = z3.SolverFor(logic) if logic else z3.Solver()
    if rlimit:
        s.set("rlimit", rlimit)
    if timeout_ms:
        s.set("timeout", timeout_ms)
    return s


class Run:
    """One execution of the harness along one path."""

    def __init__(self, explorer, prefix):
        self.ex = explorer
        self.cfg = explorer.cfg
        self.stats = explorer.stats
        self.prefix = prefix
        self.decisions = []
        self.pc = []
        self.inputs = {}      # name -> z3 const (harness-declared inputs, used for counterexamples)
        self.input_bounds = {}
        self.fresh_n = itertools.count()
        self.model = None     # a model of the current path condition, if known
        self.notes = {}       # free-form per-path info set by harness/shims
        self.approx_conds = []   # z3 conditions under which a model choice on this path depended on the direction of a
                                 # rounding error the model leaves open (a tie, a floor at an integer boundary): a
                                 # counterexample satisfying one of them is 'soft' (believed only when it replays)
        self._inc = None
        if not self.cfg.fresh_feas:
            self._inc = _mk_solver(self.cfg.logic, self.cfg.feas_rlimit, self.cfg.feas_timeout_ms)

    @property
    def approx(self):
        return bool(self.approx_conds)

    def rounding_dependent(self, cond):
        self.approx_conds.append(cond)

    # -- variables --------------------------------------------------------------------------
    def int(self, name, lo=None, hi=None):
        from .values import SymInt
        v = z3.Int(name)
        self.inputs[name] = v
        self.input_bounds[name] = (lo, hi)
        if lo is not None:
            self._add(v >= lo)
        if hi is not None:
            self._add(v <= hi)
        return SymInt(v, lo=lo, hi=hi)

    def real(self, name):
        from .values import SymReal
        v = z3.Real(name)
        self.inputs[name] = v
        return SymReal(v)

    def bool(self, name):
        from .values import SymBool
        v = z3.Bool(name)
        self.inputs[name] = v
        return SymBool(v)

    def fresh_int(self, tag="k"):
        return z3.Int("%s!%d" % (tag, next(self.fresh_n)))

    def fresh_real(self, tag="r"):
        return z3.Real("%s!%d" % (tag, next(self.fresh_n)))

    def fresh_bool(self, tag="b"):
        return z3.Bool("%s!%d" % (tag, next(self.fresh_n)))

    # -- path condition ---------------------------------------------------------------------
    def _add(self, c):
        """Add a constraint to the path condition.  A cached model survives only if it satisfies c
        (without completing the model: a constraint over new variables drops it)."""
        if self.model is not None:
            try:
                v = self.model.eval(c, model_completion=False)
                if not z3.is_true(v):
                    self.model = None
            except z3.Z3Exception:
                self.model = None
        self.pc.append(c)
        if self._inc is not None:
            self._inc.add(c)

    def _check(self, extra):
        """Satisfiability of pc + extra.  Returns 'sat'/'unsat'/'unknown' and keeps the model."""
        t0 = time.time()
        self.stats.feas_queries += 1
        if self._inc is not None:
            self._inc.push()
            for e in extra:
                self._inc.add(e)
            r = self._inc.check()
            m = self._inc.model() if r == z3.sat else None
            self._inc.pop()
        else:
            s = _mk_solver(self.cfg.logic, self.cfg.feas_rlimit, self.cfg.feas_timeout_ms)
            for c in self.pc:
                s.add(c)
            for e in extra:
                s.add(e)
            r = s.check()
            m = s.model() if r == z3.sat else None
        self.stats.solver_s += time.time() - t0
        if TRACE or time.time() - t0 > 20:
            sys.stderr.write("[feas %s %.2fs depth=%d case=%s] %s\n" % (r, time.time() - t0, len(self.decisions), self.ex.case_label, str(extra)[:150]))
            sys.stderr.flush()
        if r == z3.sat:
            return "sat", m
        if r == z3.unsat:
            return "unsat", None
        self.stats.feas_unknown += 1
        return "unknown", None

    def _model_says(self, cond):
        if self.model is None:
            return None
        try:
            v = self.model.eval(cond, model_completion=True)
        except z3.Z3Exception:
            return None
        if z3.is_true(v):
            return True
        if z3.is_false(v):
            return False
        return None

    def assume(self, cond):
        from .values import SymBool
        if isinstance(cond, SymBool):
            cond = cond.t
        if cond is True:
            return
        if cond is False:
            raise Infeasible()
        cond = z3.simplify(cond)
        if z3.is_true(cond):
            return
        if z3.is_false(cond):
            raise Infeasible()
        says = self._model_says(cond)
        self._add(cond)
        if says is True:
            return
        r, m = self._check([])
        if r == "unsat":
            self.stats.infeasible_ends += 1
            raise Infeasible()
        self.model = m

    def branch(self, cond):
        """Decide a symbolic Boolean.  cond: z3 BoolRef."""
        cond = z3.simplify(cond)
        if z3.is_true(cond):
            return True
        if z3.is_false(cond):
            return False
        i = len(self.decisions)
        if i < len(self.prefix):
            d = self.prefix[i]
            if not isinstance(d, bool):
                raise RuntimeError("decision log out of step: expected a Boolean decision at %d, found %r" % (i, d))
            self.decisions.append(d)
            self._add(cond if d else z3.Not(cond))
            if self.model is not None and self._model_says(cond) is not d:
                self.model = None
            return d
        if i >= self.cfg.max_decisions:
            self.stats.truncated += 1
            raise Truncated()
        if self.ex.split_depth is not None and i >= self.ex.split_depth:
            self.ex.roots.append(list(self.decisions))
            raise SplitPoint()
        says = self._model_says(cond)
        if says is None and self.model is None:
            # establish a model of the path condition first
            r, m = self._check([])
            if r == "unsat":
                self.stats.infeasible_ends += 1
                raise Infeasible()
            self.model = m
            says = self._model_says(cond)
        ncond = z3.Not(cond)
        if says is True:
            self.stats.model_hits += 1
            t_ok, t_m = "sat", self.model
            f_ok, f_m = self._check([ncond])
        elif says is False:
            self.stats.model_hits += 1
            f_ok, f_m = "sat", self.model
            t_ok, t_m = self._check([cond])
        else:
            t_ok, t_m = self._check([cond])
            f_ok, f_m = self._check([ncond])
        t_f = t_ok != "unsat"
        f_f = f_ok != "unsat"
        if not t_f and not f_f:
            self.stats.infeasible_ends += 1
            raise Infeasible()
        if t_f and f_f:
            self.ex.push(self.decisions + [False])
            d = True
        else:
            d = t_f
        self.decisions.append(d)
        self._add(cond if d else ncond)
        self.model = t_m if d else f_m
        return d

    def choose(self, n, tag="choice"):
        """Harness-level nondeterministic choice of an index in range(n) (forks the path)."""
        if n <= 1:
            return 0
        v = self.fresh_int(tag)
        self.inputs[str(v)] = v
        self._add(z3.And(v >= 0, v < n))
        for k in range(n - 1):
            if self.branch(v == k):
                return k
        return n - 1

    def guided(self, compute):
        """A value chosen with the help of the current model (solver-guided enumeration).  The choice is
        recorded in the decision log so that re-executions of the same prefix take the same value: the
        model found on a re-execution may differ, and the Boolean decisions that follow refer to this value."""
        i = len(self.decisions)
        if i < len(self.prefix):
            rec = self.prefix[i]
            if not (isinstance(rec, tuple) and rec[0] == "k"):
                raise RuntimeError("decision log out of step: expected a recorded choice at %d, found %r" % (i, rec))
            self.decisions.append(rec)
            return rec[1]
        if self.model is None:
            r, m = self._check([])
            if r != "sat":
                if r == "unsat":
                    self.stats.infeasible_ends += 1
                    raise Infeasible()
                self.stats.truncated += 1
                raise Truncated()
            self.model = m
        k = compute(self.model)
        self.decisions.append(("k", k))
        return k

    def concretize(self, term, lo=None, hi=None, limit=None):
        """Fork the path on the concrete value of an integer term (solver-guided enumeration).  At most
        `limit` (default cfg.max_alternatives) values are tried on one path; the rest is counted as truncated."""
        term = z3.simplify(term)
        if z3.is_int_value(term):
            return term.as_long()
        tried = 0
        while True:
            k = self.guided(lambda m: model_value(m, term))
            if not isinstance(k, int):
                raise RuntimeError("concretize: non-integer model value %r" % (k,))
            if self.branch(term == k):
                return k
            tried += 1
            if tried >= (limit or self.cfg.max_alternatives):
                # the term ranges over too many values to enumerate: give up on the remaining ones (counted as truncated)
                self.stats.truncated += 1
                raise Truncated()

    # -- obligations ------------------------------------------------------------------------
    def reach(self, label):
        self.stats.reach[label] = self.stats.reach.get(label, 0) + 1

    def check_sat(self, extra, logic=None, rlimit=None, timeout_ms=None, pc=None):
        """Fresh-solver satisfiability of pc + extra.  Returns (verdict, model)."""
        t0 = time.time()
        s = _mk_solver(logic if logic is not None else self.cfg.logic, rlimit or self.cfg.ob_rlimit,
                       timeout_ms or self.cfg.ob_timeout_ms)
        for c in (self.pc if pc is None else pc):
            s.add(c)
        for e in extra:
            s.add(e)
        if DUMP_DIR:
            _DUMP_N[0] += 1
            with open(os.path.join(DUMP_DIR, "q%d_%05d.smt2" % (os.getpid(), _DUMP_N[0])), "w") as f:
                f.write(s.to_smt2())
        r = s.check()
        self.stats.solver_s += time.time() - t0
        if r == z3.sat:
            return "sat", s.model()
        if r == z3.unsat:
            return "unsat", None
        return "unknown", None

    def prove(self, name, claim, info=None, exclude=(), logic=None, rlimit=None, hints=(), soft=False, record_cex=True):
        """Obligation: under the path condition, claim holds for all values.
        exclude: list of (finding_id, z3 predicate over the inputs) - known findings; counterexamples
        are searched first inside each excluded region (reported with their id) and then outside all."""
        from .values import SymBool
        if isinstance(claim, SymBool):
            claim = claim.t
        if claim is True:
            claim = z3.BoolVal(True)
        if claim is False:
            claim = z3.BoolVal(False)
        d = self.stats.ob_names.setdefault(name, {"unsat": 0, "sat": 0, "unknown": 0})
        neg = z3.Not(claim)
        extra = [neg] + list(hints)
        regions = [(None, [z3.Not(p) for (_fid, p) in exclude])]
        for fid, p in exclude:
            regions.append((fid, [p]))
        verdict = "unsat"
        hard_soft = soft
        for fid, reg in regions:
            t0 = time.time()
            soft = hard_soft
            if self.approx_conds and self.cfg.approx_rlimit:
                # rounding-dependent choices were made on this path: cap the effort (an undecided obligation is
                # reported as such) - what can be found here is mostly decided by replay
                r, m = self.check_sat(extra + reg, logic=logic, rlimit=min(rlimit or self.cfg.ob_rlimit, self.cfg.approx_rlimit),
                                      timeout_ms=self.cfg.approx_timeout_ms)
            else:
                r, m = self._decide(extra + reg, logic, rlimit)
            if r == "sat" and self.approx_conds and not hard_soft:
                dep = False
                for c in self.approx_conds:
                    try:
                        dep = dep or not z3.is_false(m.eval(c, model_completion=True))
                    except z3.Z3Exception:
                        dep = True
                if dep:
                    # the counterexample depends on an open rounding direction: look (with a small budget) for
                    # one that does not; failing that it is soft - decided by replay, not by solver effort
                    firm = [z3.Not(c) for c in self.approx_conds]
                    r2, m2 = self.check_sat(extra + reg + firm, logic=logic, rlimit=min(rlimit or self.cfg.ob_rlimit, 30_000_000),
                                            timeout_ms=60000)
                    if r2 == "sat":
                        m = m2
                    else:
                        soft = True
            if TRACE or time.time() - t0 > 20:
                sys.stderr.write("[prove %s %s %.2fs case=%s]\n" % (name, r, time.time() - t0, self.ex.case_label))
                sys.stderr.flush()
            if r == "unsat":
                self.stats.ob_unsat += 1
                d["unsat"] += 1
                if fid is None and len(self.stats.samples) < 8 and not any(x["obligation"] == name for x in self.stats.samples):
                    self.stats.samples.append({"obligation": name, "verdict": "unsat (holds on this path)",
                                               "path_decisions": len(self.decisions),
                                               "path_condition": [str(c)[:160] for c in self.pc[:8]],
                                               "claim": str(claim)[:300]})
            elif r == "sat":
                self.stats.ob_sat += 1
                d["sat"] += 1
                verdict = "sat"
                n_same = sum(1 for c in self.stats.cex if c["obligation"] == name and c.get("finding") == fid)
                if record_cex and n_same < self.cfg.max_cex_per_ob:
                    vals = {}
                    for k, v in self.inputs.items():
                        x = model_value(m, v)
                        vals[k] = x if isinstance(x, (int, bool)) else str(x)
                    cex = {"obligation": name, "finding": fid, "inputs": vals,
                           "info": info, "case": self.ex.case_label, "soft": soft,
                           "notes": {k: v for k, v in self.notes.items() if not k.startswith("_")},
                           "decisions": list(self.decisions)}
                    if soft and self.cfg.soft_alternatives and n_same < 2:
                        cex["alternatives"] = self._alternatives(extra + reg, vals, logic, rlimit)
                    self.stats.cex.append(cex)
            else:
                self.stats.ob_unknown += 1
                d["unknown"] += 1
                if verdict == "unsat":
                    verdict = "unknown"
                if len(self.stats.unknowns) < 20:
                    self.stats.unknowns.append({"obligation": name, "case": self.ex.case_label,
                                                "decisions": list(self.decisions)})
        return verdict

    def _decide(self, cons, logic, rlimit):
        """Decide pc + cons.  With cfg.falsify_samples the query first gets a short slice; if that does not
        settle it, counterexample candidates are looked for in sub-boxes (a random subset of the inputs pinned
        to small values, the solver completes the rest - far fewer non-linear variables); only then the full
        budget is spent.  A model found in a sub-box is a model of the full query, so the verdict is the same
        as without the shortcut; 'unsat' and 'unknown' only ever come from an unrestricted query."""
        if not self.cfg.falsify_samples:
            return self.check_sat(cons, logic=logic, rlimit=rlimit)
        full = rlimit or self.cfg.ob_rlimit
        r, m = self.check_sat(cons, logic=logic, rlimit=min(full, self.cfg.falsify_first_rlimit), timeout_ms=self.cfg.falsify_first_ms)
        if r != "unknown":
            return r, m
        # proof by weakening: 'unsat' from a subset of the path condition carries over to the whole (irrelevant
        # non-linear facts about other variables can derail the cylindrical decomposition).  Single-variable
        # facts (domains) are always kept; the other path constraints are tried one and two at a time.
        def nvars(c):
            seen, todo = set(), [c]
            while todo and len(seen) < 2:
                e = todo.pop()
                if z3.is_const(e) and e.decl().kind() == z3.Z3_OP_UNINTERPRETED:
                    seen.add(e.get_id())
                else:
                    todo.extend(e.children())
            return len(seen)
        dom = [c for c in self.pc if nvars(c) <= 1]
        rest = [c for c in self.pc if nvars(c) > 1]
        t_end = time.time() + self.cfg.falsify_budget_s / 2
        subsets = [[c] for c in rest] + [[a, b] for i, a in enumerate(rest) for b in rest[i + 1:]]
        for sub in subsets[:60]:
            if time.time() > t_end:
                break
            r1, _m1 = self.check_sat(list(cons), logic=logic, rlimit=min(full, self.cfg.falsify_first_rlimit), timeout_ms=2000,
                                     pc=dom + sub)
            if r1 == "unsat":
                return "unsat", None
        import random as _random
        import zlib
        rnd = _random.Random(zlib.crc32(repr([str(c)[:80] for c in cons[:3]]).encode()))
        names = list(self.inputs.items())
        small = [0, 1, -1, 2, -2, 3, 5, 10, 20, 7, z3.Q(1, 2), z3.Q(-1, 2), z3.Q(1, 4), z3.Q(3, 2), z3.Q(9, 10), z3.Q(9, 5)]
        t_end = time.time() + self.cfg.falsify_budget_s
        for _ in range(self.cfg.falsify_samples):
            if time.time() > t_end or len(names) < 2:
                break
            k = rnd.randint(max(1, len(names) // 3), max(1, (2 * len(names)) // 3))
            pins = []
            for name, v in rnd.sample(names, k):
                if z3.is_real(v):
                    pins.append(v == rnd.choice(small))
                elif z3.is_int(v):
                    lo, hi = self.input_bounds.get(name, (None, None))
                    if lo is None or hi is None:
                        x = rnd.choice([0, 1, -1, 2, -2, 3, 5, 10, 20, 7])
                    else:
                        mag = max(abs(lo), abs(hi), 1)
                        x = min(max(int(2 ** rnd.uniform(0, mag.bit_length())) * rnd.choice((1, -1)), lo), hi)
                    pins.append(v == x)
            r2, m2 = self.check_sat(list(cons) + pins, logic=logic, rlimit=min(full, self.cfg.falsify_first_rlimit), timeout_ms=3000)
            if r2 == "sat":
                return r2, m2
        return self.check_sat(cons, logic=logic, rlimit=rlimit)

    def _alternatives(self, extra, first, logic, rlimit):
        """Further models of a soft counterexample query, each differing from all earlier ones in every
        integer input that can differ (falling back to 'some input differs').  Whether a rounding-dependent
        counterexample shows on the real code depends on the direction of the actual rounding error, which
        the model leaves open; several diverse candidates are replayed and one reproduction is enough."""
        out, seen = [], [first]
        t_end = time.time() + 20
        ivars = [(k, v) for k, v in self.inputs.items() if z3.is_int(v)]
        rvars = [(k, v) for k, v in self.inputs.items() if z3.is_real(v)]

        def differs(s):
            out = [v != z3.IntVal(int(s[k])) for k, v in ivars if isinstance(s.get(k), int) and not isinstance(s.get(k), bool)]
            for k, v in rvars:
                try:
                    out.append(v != z3.RealVal(str(s[k])))
                except Exception:
                    pass
            return out
        # real-valued inputs: ask for models in general position (pairwise distinct values) - degenerate models
        # (everything 0) are what the solver returns first and are the least useful for lifting or replay
        generic = [z3.Distinct([v for _k, v in rvars])] if len(rvars) >= 2 else []
        for _ in range(self.cfg.soft_alternatives):
            strong = [c for s in seen for c in differs(s)] + generic
            weak = [z3.Or(differs(s) or [z3.BoolVal(False)]) for s in seen]
            got = None
            for block in (strong, weak):
                if time.time() > t_end:
                    break
                # candidate search only: a wall-clock cap is harmless here (it never decides an obligation)
                r, m = self.check_sat(list(extra) + block, logic=logic, rlimit=min(rlimit or self.cfg.ob_rlimit, 10_000_000),
                                      timeout_ms=4000)
                if r == "sat":
                    got = m
                    break
            if got is None:
                break
            vals = {}
            for k, v in self.inputs.items():
                x = model_value(got, v)
                vals[k] = x if isinstance(x, (int, bool)) else str(x)
            seen.append(vals)
            out.append(vals)
        # further candidates: pin a random subset of the bounded integer inputs to random values (magnitudes
        # log-uniform over the declared range) and let the solver complete the rest - each pinned query is
        # much easier (often linear) and the candidates are spread over the whole input box
        import random as _random
        import zlib
        rnd = _random.Random(zlib.crc32(repr(sorted(first.items())).encode()))
        bounded = [(k, v) for k, v in ivars if self.input_bounds.get(k, (None, None))[0] is not None
                   and self.input_bounds[k][1] is not None]
        t_end = time.time() + 30
        for _ in range(self.cfg.soft_samples if len(bounded) >= 2 else 0):
            if time.time() > t_end:
                break
            nfree = rnd.randint(1, max(1, len(bounded) // 2))
            free = set(rnd.sample(range(len(bounded)), nfree))
            pins = []
            for i, (k, v) in enumerate(bounded):
                if i in free:
                    continue
                lo, hi = self.input_bounds[k]
                mag = max(abs(lo), abs(hi), 1)
                x = int(2 ** rnd.uniform(0, mag.bit_length())) * rnd.choice((1, -1))
                x = min(max(x, lo), hi)
                pins.append(v == x)
            r, m = self.check_sat(list(extra) + pins, logic=logic, rlimit=5_000_000, timeout_ms=2000)
            if r != "sat":
                continue
            vals = {}
            for k, v in self.inputs.items():
                x = model_value(m, v)
                vals[k] = x if isinstance(x, (int, bool)) else str(x)
            out.append(vals)
        return out


class Explorer:
    def __init__(self, harness, cfg=None, case_label=None, split_depth=None):
        self.harness = harness
        self.cfg = cfg or Config()
        self.stats = Stats()
        self.work = []
        self.case_label = case_label
        self.split_depth = split_depth
        self.roots = []

    def push(self, prefix):
        self.work.append(prefix)

    def explore(self, root=None):
        self.work.append(list(root) if root else [])
        while self.work:
            prefix = self.work.pop()
            if self.cfg.max_paths is not None and self.stats.paths >= self.cfg.max_paths:
                self.stats.truncated += 1 + len(self.work)
                self.work = []
                break
            run = Run(self, prefix)
            prev = _CUR[0]
            _CUR[0] = run
            try:
                self.harness(run)
                self.stats.paths += 1
                self.stats.max_depth = max(self.stats.max_depth, len(run.decisions))
            except SplitPoint:
                self.stats.split_roots += 1
            except (Infeasible, Truncated):
                pass
            finally:
                _CUR[0] = prev
        return self.stats
