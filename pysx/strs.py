"""Symbolic strings of concrete length (placeholder; see below)."""


class SymStr:
    pass
