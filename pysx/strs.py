"""Symbolic strings of concrete length.

A SymStr is a tuple of elements; each element is
  * a concrete 1-character ``str``,
  * a z3 Int term (an ASCII code point constrained by the harness to some alphabet), or
  * an ``Atom``: an opaque, non-empty numeral token (characters from ``0-9 . + -`` and inner ``e/E``)
    that ``float()`` turns into the atom's symbolic real value (or ValueError when the atom is
    flagged invalid).  It contains no whitespace, comma or unit letter at its ends.

Methods fork the path (through SymBool.__bool__) only where the *shape* of the result depends on
symbolic characters.  The universe is ASCII; whitespace is str.isspace restricted to ASCII."""
import z3

from . import engine
from .values import SymBool, SymInt, SymQ, SymReal, mkbool

WS = (9, 10, 11, 12, 13, 28, 29, 30, 31, 32)       # str.isspace() within ASCII
BYTES_WS = (9, 10, 11, 12, 13, 32)                 # bytes.strip() default


class Atom:
    """Opaque numeral token."""
    __slots__ = ("name", "value", "valid")

    def __init__(self, name, value, valid=True):
        self.name = name
        self.value = value
        self.valid = valid

    def __repr__(self):
        return "<atom %s>" % self.name


def _is_term(e):
    return isinstance(e, z3.ExprRef)


def ch_eq(a, b):
    """Boolean (Python bool or z3 BoolRef): elements a and b are the same character."""
    if isinstance(a, Atom) or isinstance(b, Atom):
        return a is b
    if isinstance(a, str) and isinstance(b, str):
        return a == b
    ta = a if _is_term(a) else z3.IntVal(ord(a))
    tb = b if _is_term(b) else z3.IntVal(ord(b))
    return ta == tb


def ch_in(e, codes):
    if isinstance(e, Atom):
        return False
    if isinstance(e, str):
        return ord(e) in codes
    return z3.Or([e == c for c in codes])


def ch_lower(e):
    if isinstance(e, Atom):
        return e
    if isinstance(e, str):
        return e.lower()
    return z3.If(z3.And(e >= 65, e <= 90), e + 32, e)


def ch_upper(e):
    if isinstance(e, Atom):
        return e
    if isinstance(e, str):
        return e.upper()
    return z3.If(z3.And(e >= 97, e <= 122), e - 32, e)


def zand(parts):
    parts = list(parts)
    if any(p is False for p in parts):
        return False
    parts = [p for p in parts if p is not True]
    if not parts:
        return True
    return z3.And(parts) if len(parts) > 1 else parts[0]


def zor(parts):
    parts = list(parts)
    if any(p is True for p in parts):
        return True
    parts = [p for p in parts if p is not False]
    if not parts:
        return False
    return z3.Or(parts) if len(parts) > 1 else parts[0]


def decide(b):
    """Fork on a Python bool / z3 BoolRef."""
    if isinstance(b, bool):
        return b
    return engine.cur().branch(b)


def elems(x):
    if isinstance(x, SymStr):
        return x.e
    if isinstance(x, str):
        from .tokens import has_token
        if has_token(x):
            return from_token_str(x).e
        return tuple(x)
    raise TypeError("expected str, got %s" % type(x).__name__)


def from_token_str(s):
    """A real str that carries string tokens -> SymStr (number tokens stay opaque pieces)."""
    from .tokens import split_tokens
    out = []
    for piece in split_tokens(s):
        if isinstance(piece, str):
            out.extend(piece)
        else:
            value, spec = piece
            if isinstance(value, SymStr) and spec == "":
                out.extend(value.e)
            else:
                out.append(NumTok(value, spec))
    return SymStr(out)


class NumTok(Atom):
    """A formatted symbolic number embedded in text (rendering unknown: behaves like an Atom)."""
    __slots__ = ("num", "spec")

    def __init__(self, num, spec):
        Atom.__init__(self, "num", num, True)
        self.num = num
        self.spec = spec


def strlike(x):
    return isinstance(x, (str, SymStr))


class SymStr:
    __slots__ = ("e",)

    def __init__(self, elements):
        self.e = tuple(elements)

    # -- construction helpers --------------------------------------------------------------------
    @staticmethod
    def lit(s):
        return SymStr(tuple(s))

    def is_concrete(self):
        return all(isinstance(c, str) for c in self.e)

    def concrete_str(self):
        return "".join(self.e)

    def concretize(self):
        """Fork until every character is concrete; returns a real str (atoms are not allowed)."""
        r = engine.cur()
        out = []
        for c in self.e:
            if isinstance(c, Atom):
                raise NotImplementedError("concretize string with numeral atom")
            out.append(c if isinstance(c, str) else chr(r.concretize(c)))
        return "".join(out)

    def simp(self):
        """Replace character terms that simplify to constants by concrete characters."""
        out = []
        for c in self.e:
            if _is_term(c):
                s = z3.simplify(c)
                if z3.is_int_value(s):
                    c = chr(s.as_long())
            out.append(c)
        return SymStr(out)

    # -- basic protocol --------------------------------------------------------------------------
    def __len__(self):
        return len(self.e)

    def length(self):
        return len(self.e)

    def __bool__(self):
        return len(self.e) > 0

    def __iter__(self):
        for c in self.e:
            yield c if isinstance(c, str) else SymStr((c,))

    def __repr__(self):
        return "SymStr(%s)" % "".join(c if isinstance(c, str) else ("<%s>" % (c,)) for c in self.e)

    def __str__(self):
        return self.__format__("")

    def __format__(self, spec):
        if self.is_concrete():
            return format(self.concrete_str(), spec)
        from .tokens import make_token
        return make_token(self, spec)

    def __hash__(self):
        return hash(self.concretize())

    def __getitem__(self, k):
        if isinstance(k, slice):
            return SymStr(self.e[k])._norm()
        if isinstance(k, (SymInt,)):
            k = k.__index__()
        c = self.e[k]
        return c if isinstance(c, str) else SymStr((c,))

    def _norm(self):
        return self

    def __add__(self, o):
        if not strlike(o):
            return NotImplemented
        return SymStr(self.e + elems(o))

    def __radd__(self, o):
        if not strlike(o):
            return NotImplemented
        return SymStr(elems(o) + self.e)

    def __mul__(self, n):
        return SymStr(self.e * n)

    # -- comparisons -----------------------------------------------------------------------------
    def eq_term(self, o):
        oe = elems(o)
        if len(oe) != len(self.e):
            return False
        return zand(ch_eq(a, b) for a, b in zip(self.e, oe))

    def __eq__(self, o):
        if not strlike(o):
            return False
        return mkbool(self.eq_term(o))

    def __ne__(self, o):
        if not strlike(o):
            return True
        t = self.eq_term(o)
        return (not t) if isinstance(t, bool) else mkbool(z3.Not(t))

    def _lex(self, o, strict):
        """self < o (strict) or self <= o, lexicographic by code point."""
        a, b = self.e, elems(o)
        if any(isinstance(c, Atom) for c in a + b):
            raise NotImplementedError("ordering of strings with numeral atoms")

        def t(c):
            return c if _is_term(c) else z3.IntVal(ord(c))
        n = min(len(a), len(b))
        res = (len(a) < len(b)) if strict else (len(a) <= len(b))
        res = z3.BoolVal(res)
        for i in reversed(range(n)):
            res = z3.If(t(a[i]) < t(b[i]), True, z3.If(t(a[i]) > t(b[i]), False, res))
        return mkbool(res)

    def __lt__(self, o):
        return self._lex(o, True)

    def __le__(self, o):
        return self._lex(o, False)

    def __gt__(self, o):
        return SymStr(elems(o))._lex(self, True)

    def __ge__(self, o):
        return SymStr(elems(o))._lex(self, False)

    # -- searching -------------------------------------------------------------------------------
    def _match_at(self, sub, i):
        if i < 0 or i + len(sub) > len(self.e):
            return False
        return zand(ch_eq(self.e[i + j], sub[j]) for j in range(len(sub)))

    def startswith(self, prefix, start=0):
        if isinstance(prefix, tuple):
            return mkbool(zor(self._match_at(elems(p), start) for p in prefix))
        return mkbool(self._match_at(elems(prefix), start))

    def endswith(self, suffix):
        s = elems(suffix)
        return mkbool(self._match_at(s, len(self.e) - len(s)))

    def __contains__(self, sub):
        if not strlike(sub):
            raise TypeError("'in <string>' requires string as left operand, not %s" % type(sub).__name__)
        s = elems(sub)
        if not s:
            return True
        t = zor(self._match_at(s, i) for i in range(len(self.e) - len(s) + 1))
        return decide(t)

    def contains_term(self, sub):
        s = elems(sub)
        if not s:
            return True
        return zor(self._match_at(s, i) for i in range(len(self.e) - len(s) + 1))

    def find(self, sub, start=0, end=None):
        s = elems(sub)
        n = len(self.e) if end is None else min(end, len(self.e))
        if isinstance(start, SymInt):
            start = start.__index__()
        if start < 0:
            start = max(0, len(self.e) + start)
        for i in range(start, n - len(s) + 1):
            if decide(self._match_at(s, i)):
                return i
        return -1

    def index(self, sub, start=0):
        i = self.find(sub, start)
        if i < 0:
            raise ValueError("substring not found")
        return i

    def count(self, sub):
        s = elems(sub)
        i, n = 0, 0
        while True:
            i = self.find(SymStr(s), i)
            if i < 0:
                return n
            n += 1
            i += max(1, len(s))

    # -- whitespace ------------------------------------------------------------------------------
    def _strip_pred(self, chars, ws=WS):
        if chars is None:
            return lambda c: ch_in(c, ws)
        ce = elems(chars)
        return lambda c: zor(ch_eq(c, x) for x in ce)

    def lstrip(self, chars=None, _ws=WS):
        p = self._strip_pred(chars, _ws)
        i = 0
        while i < len(self.e) and decide(p(self.e[i])):
            i += 1
        return SymStr(self.e[i:])

    def rstrip(self, chars=None, _ws=WS):
        p = self._strip_pred(chars, _ws)
        j = len(self.e)
        while j > 0 and decide(p(self.e[j - 1])):
            j -= 1
        return SymStr(self.e[:j])

    def strip(self, chars=None, _ws=WS):
        return self.lstrip(chars, _ws).rstrip(chars, _ws)

    def isspace(self):
        if not self.e:
            return False
        return mkbool(zand(ch_in(c, WS) for c in self.e))

    def isdigit(self):
        if not self.e:
            return False
        return mkbool(zand(ch_in(c, range(48, 58)) for c in self.e))

    def lower(self):
        return SymStr(ch_lower(c) for c in self.e).simp()

    def upper(self):
        return SymStr(ch_upper(c) for c in self.e).simp()

    # -- splitting / replacing -------------------------------------------------------------------
    def split(self, sep=None, maxsplit=-1):
        if sep is None:
            out, cur = [], []
            i, n = 0, len(self.e)
            while i < n:
                c = self.e[i]
                if decide(ch_in(c, WS)):
                    if cur:
                        out.append(SymStr(cur))
                        cur = []
                        if maxsplit >= 0 and len(out) >= maxsplit:
                            rest = SymStr(self.e[i:]).lstrip()
                            if len(rest):
                                out.append(rest)
                            return out
                else:
                    cur.append(c)
                i += 1
            if cur:
                out.append(SymStr(cur))
            return out
        s = elems(sep)
        if not s:
            raise ValueError("empty separator")
        out, start, i = [], 0, 0
        n = len(self.e)
        while i <= n - len(s):
            if maxsplit >= 0 and len(out) >= maxsplit:
                break
            if decide(self._match_at(s, i)):
                out.append(SymStr(self.e[start:i]))
                i += len(s)
                start = i
            else:
                i += 1
        out.append(SymStr(self.e[start:]))
        return out

    def replace(self, old, new, count=-1):
        o, nw = elems(old), elems(new)
        if not o:
            raise NotImplementedError("replace of empty string")
        if len(o) == 1 and len(nw) == 1 and count < 0 and not isinstance(o[0], Atom):
            # character-wise: no fork needed
            out = []
            for c in self.e:
                if isinstance(c, Atom):
                    out.append(c)
                    continue
                t = ch_eq(c, o[0])
                if t is True:
                    out.append(nw[0])
                elif t is False:
                    out.append(c)
                else:
                    cn = nw[0] if _is_term(nw[0]) else z3.IntVal(ord(nw[0]))
                    cc = c if _is_term(c) else z3.IntVal(ord(c))
                    out.append(z3.If(t, cn, cc))
            return SymStr(out).simp()
        out, i, n, done = [], 0, len(self.e), 0
        while i < n:
            if (count < 0 or done < count) and decide(self._match_at(o, i)):
                out.extend(nw)
                i += len(o)
                done += 1
            else:
                out.append(self.e[i])
                i += 1
        return SymStr(out)

    def join(self, parts):
        out = []
        for k, p in enumerate(parts):
            if k:
                out.extend(self.e)
            out.extend(elems(p))
        return SymStr(out)

    # -- encoding --------------------------------------------------------------------------------
    def encode(self, encoding="utf-8", errors="strict"):
        # ASCII universe: every character < 128 (constraint of the harness alphabets)
        return SymBytes(self)

    # -- numbers ---------------------------------------------------------------------------------
    def to_int(self, base=10):
        s = self.strip()
        e = s.e
        if any(isinstance(c, Atom) for c in e):
            if len(e) == 1 and isinstance(e[0], NumTok) and isinstance(e[0].num, SymInt) and e[0].spec in ("", "d") and base == 10:
                return e[0].num
            raise ValueError("invalid literal for int()")
        sign = 1
        if e and decide(ch_in(e[0], (43, 45))):
            if decide(ch_eq(e[0], "-")):
                sign = -1
            e = e[1:]
        if not e:
            raise ValueError("invalid literal for int() with base %d" % base)
        total = z3.IntVal(0)
        allconc = True
        cval = 0
        for c in e:
            if isinstance(c, str):
                try:
                    d = int(c, base)
                except ValueError:
                    raise ValueError("invalid literal for int() with base %d" % base)
                total = total * base + d
                cval = cval * base + d
                continue
            allconc = False
            digit_ok = [z3.And(c >= 48, c <= min(57, 47 + base))]
            val = c - 48
            if base > 10:
                digit_ok.append(z3.And(c >= 97, c <= 96 + base - 10))
                digit_ok.append(z3.And(c >= 65, c <= 64 + base - 10))
                val = z3.If(c >= 97, c - 87, z3.If(c >= 65, c - 55, c - 48))
            if not decide(z3.Or(digit_ok)):
                raise ValueError("invalid literal for int() with base %d" % base)
            total = total * base + val
        if allconc:
            return sign * cval
        return SymInt(total * sign, bound=base ** len(e))

    def to_float(self):
        """Model of float(str) for short ASCII strings: [ws] [sign] (digits [. digits*] | . digits) [(e|E) [sign] digits] [ws]
        (inf/nan and '_' are outside the alphabets used by the harnesses); validated against CPython in C12."""
        s = self.strip()
        e = list(s.e)
        if len(e) == 1 and isinstance(e[0], Atom):
            a = e[0]
            if isinstance(a, NumTok):
                return a.num if not isinstance(a.num, SymStr) else a.num.to_float()
            if not decide(a.valid if isinstance(a.valid, bool) else a.valid.t if isinstance(a.valid, SymBool) else a.valid):
                raise ValueError("could not convert string to float")
            return a.value
        if any(isinstance(c, Atom) for c in e):
            raise ValueError("could not convert string to float")
        neg = False
        if e and decide(ch_in(e[0], (43, 45))):
            neg = decide(ch_eq(e[0], "-"))
            e = e[1:]
        # mantissa: digits [. digits] | . digits ; then an optional exponent: (e|E) [sign] digits
        k = 0
        ip, fp = [], []
        while k < len(e) and decide(ch_in(e[k], range(48, 58))):
            ip.append(e[k])
            k += 1
        if k < len(e) and decide(ch_eq(e[k], ".")):
            k += 1
            while k < len(e) and decide(ch_in(e[k], range(48, 58))):
                fp.append(e[k])
                k += 1
        if not ip and not fp:
            raise ValueError("could not convert string to float")
        exp10 = 0
        if k < len(e):
            if not decide(ch_in(e[k], (69, 101))):
                raise ValueError("could not convert string to float")
            k += 1
            eneg = False
            if k < len(e) and decide(ch_in(e[k], (43, 45))):
                eneg = decide(ch_eq(e[k], "-"))
                k += 1
            ed = []
            while k < len(e) and decide(ch_in(e[k], range(48, 58))):
                ed.append(e[k])
                k += 1
            if not ed or k < len(e):
                raise ValueError("could not convert string to float")
            ev = z3.IntVal(0)
            for c in ed:
                ev = ev * 10 + ((c - 48) if _is_term(c) else (ord(c) - 48))
            exp10 = engine.cur().concretize(ev, limit=101)        # the exponent is enumerated (it is at most two digits here)
            if eneg:
                exp10 = -exp10
        num = z3.IntVal(0)
        for c in ip + fp:
            num = num * 10 + ((c - 48) if _is_term(c) else (ord(c) - 48))
        shift = exp10 - len(fp)
        if neg:
            num = -num
        if shift >= 0:
            return SymReal(z3.ToReal(num * (10 ** shift)))
        return SymReal(z3.ToReal(num) / (10 ** (-shift)))


class SymBytes:
    """bytes counterpart of SymStr (ASCII): what port.write receives and port.readline returns."""
    __slots__ = ("s",)

    def __init__(self, s):
        self.s = s if isinstance(s, SymStr) else SymStr(tuple(s))

    def decode(self, encoding="utf-8", errors="strict"):
        return self.s

    def __len__(self):
        return len(self.s)

    def __bool__(self):
        return len(self.s) > 0

    def __repr__(self):
        return "SymBytes(%r)" % (self.s,)

    def _other(self, o):
        if isinstance(o, SymBytes):
            return o.s
        if isinstance(o, (bytes, bytearray)):
            return SymStr(tuple(o.decode("latin-1")))
        raise TypeError("a bytes-like object is required, not '%s'" % type(o).__name__)

    def startswith(self, p):
        return self.s.startswith(self._other(p))

    def endswith(self, p):
        return self.s.endswith(self._other(p))

    def __contains__(self, o):
        if isinstance(o, (str, SymStr)):
            raise TypeError("a bytes-like object is required, not 'str'")
        if isinstance(o, int):
            return decide(zor(ch_eq(c, chr(o)) for c in self.s.e))
        return self._other(o) in self.s if False else self.s.__contains__(self._other(o))

    def strip(self, chars=None):
        if chars is not None:
            return SymBytes(self.s.strip(self._other(chars)))
        return SymBytes(self.s.strip(None, BYTES_WS))

    def __eq__(self, o):
        if isinstance(o, (SymBytes, bytes, bytearray)):
            return self.s == self._other(o)
        return False

    def __ne__(self, o):
        if isinstance(o, (SymBytes, bytes, bytearray)):
            return self.s != self._other(o)
        return True

    def __hash__(self):
        return hash(self.s.concretize().encode("latin-1"))

    def __add__(self, o):
        return SymBytes(self.s + self._other(o))

    def __radd__(self, o):
        return SymBytes(self._other(o) + self.s)

    def __getitem__(self, k):
        if isinstance(k, slice):
            return SymBytes(self.s[k])
        c = self.s.e[k]
        return ord(c) if isinstance(c, str) else SymInt(c, bound=255)

    def split(self, sep=None, maxsplit=-1):
        return [SymBytes(p) for p in self.s.split(None if sep is None else self._other(sep), maxsplit)]
