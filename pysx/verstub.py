"""Stub for packaging.version.parse on (symbolic) release strings N(.N)*: returns a version object whose
components are integer terms, ordered numerically component by component (missing components = 0),
which is packaging's order for plain release versions.  Anything else raises InvalidVersion.
Differentially tested against packaging in C15.validate."""
import z3
from packaging.version import InvalidVersion, Version

from .strs import SymStr, decide, zor, ch_eq
from .values import SymInt, mkbool


class SymVersion:
    def __init__(self, comps):
        self.comps = list(comps)     # ints / SymInt

    # the public attributes of packaging.version.Version that make sense for plain releases
    @property
    def release(self):
        return tuple(self.comps)

    @property
    def major(self):
        return self.comps[0] if len(self.comps) > 0 else 0

    @property
    def minor(self):
        return self.comps[1] if len(self.comps) > 1 else 0

    @property
    def micro(self):
        return self.comps[2] if len(self.comps) > 2 else 0

    @property
    def base_version(self):
        return str(self)

    public = base_version
    is_prerelease = is_postrelease = is_devrelease = False
    epoch = 0
    local = pre = post = dev = None

    def _terms(self, n):
        out = []
        for i in range(n):
            c = self.comps[i] if i < len(self.comps) else 0
            out.append(c.t if isinstance(c, SymInt) else z3.IntVal(c))
        return out

    def _cmp(self, o, strict_lt):
        if isinstance(o, Version):
            if o.is_prerelease or o.is_postrelease or o.local or o.epoch:
                raise NotImplementedError("only plain release versions are modelled")
            o = SymVersion(o.release)
        if not isinstance(o, SymVersion):
            return NotImplemented
        n = max(len(self.comps), len(o.comps))
        a, b = self._terms(n), o._terms(n)
        res = z3.BoolVal(not strict_lt)      # equal: a <= b true, a < b false
        for i in reversed(range(n)):
            res = z3.If(a[i] < b[i], True, z3.If(a[i] > b[i], False, res))
        return res

    def __lt__(self, o):
        r = self._cmp(o, True)
        return r if r is NotImplemented else mkbool(r)

    def __le__(self, o):
        r = self._cmp(o, False)
        return r if r is NotImplemented else mkbool(r)

    def __gt__(self, o):
        r = self._cmp(o, False)
        return r if r is NotImplemented else mkbool(z3.Not(r))

    def __ge__(self, o):
        r = self._cmp(o, True)
        return r if r is NotImplemented else mkbool(z3.Not(r))

    def __eq__(self, o):
        if isinstance(o, Version):
            o = SymVersion(o.release)
        if not isinstance(o, SymVersion):
            return False
        n = max(len(self.comps), len(o.comps))
        return mkbool(z3.And([x == y for x, y in zip(self._terms(n), o._terms(n))]))

    def __ne__(self, o):
        r = self.__eq__(o)
        return (not r) if isinstance(r, bool) else ~r

    def __hash__(self):
        return id(self)

    def __repr__(self):
        return "<SymVersion %s>" % ".".join(str(c) for c in self.comps)

    def __str__(self):
        return ".".join(format(c, "") for c in self.comps)


def parse_stub(s):
    if isinstance(s, str):
        s = SymStr(tuple(s))
    if not isinstance(s, SymStr):
        raise TypeError("expected string")
    s = s.strip()
    if len(s) and decide(zor([ch_eq(s.e[0], "v"), ch_eq(s.e[0], "V")])):
        s = s[1:]
    parts = s.split(".")
    comps = []
    for p in parts:
        if not len(p):
            raise InvalidVersion("Invalid version: %r" % (s,))
        if not p.isdigit():
            raise InvalidVersion("Invalid version: %r" % (s,))
        comps.append(p.to_int(10))
    return SymVersion(comps)
