#!/bin/sh
# usage: tools_seed_import.sh <ID> <k> <agent-dir> "<notes>"  -- take a sub-agent's result (<agent-dir>/<ID>.patch and
# <agent-dir>/<ID>/demo_<ID>.py), confirm it independently (tools_seed_confirm.sh), then run the property's check
# against a private scratch worktree carrying the change (tools_seed_all.py) and remove that worktree.
ID=$1; K=$2; A=$3; NOTES=$4
[ -e /verif/seeded/$ID-$K ] && { echo "seeded/$ID-$K exists already"; exit 9; }
S=/tmp/seed_out/$ID/$K; mkdir -p $S
cp $A/$ID.patch $S/patch.diff
sed "s#/tmp/seed5/$ID#.#g; s#$A/$ID#.#g" $A/$ID/demo_$ID.py > $S/demo.py
printf '%s\n' "$NOTES" > $S/notes.md
/verif/tools_seed_confirm.sh $ID $K $S || exit 1
T=/tmp/dev_$ID_$K; T=/tmp/dev_${ID}_$K
git -C /repo worktree add -q --detach $T HEAD || exit 9
SEED_TREE=$T /venv/bin/python /verif/tools_seed_all.py $ID-$K
git -C /repo worktree remove --force $T
rm -rf /tmp/seed_out/$ID/$K
