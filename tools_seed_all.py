#!/usr/bin/env python3
"""Run every stored seeded change against its property's check (quick tier) and record the outcome in meta.json.
/repo is patched and restored for each seed; do not run other checks concurrently."""
import json, os, subprocess, sys, glob
VERIF = os.path.dirname(os.path.abspath(__file__))
reg = json.load(open(os.path.join(VERIF, 'MANIFEST.json')))
claimed = {c['property_id'] for c in reg['checks']}
only = sys.argv[1:]
import atexit
atexit.register(lambda: subprocess.run(['git', '-C', '/repo', 'checkout', '--', '.']))
rows = []
for d in sorted(glob.glob(os.path.join(VERIF, 'seeded', '*'))):
    sid = os.path.basename(d)
    pid = sid.split('-')[0]
    if only and pid not in only and sid not in only:
        continue
    meta = json.load(open(os.path.join(d, 'meta.json')))
    if pid not in claimed:
        rows.append((sid, 'no check yet'))
        continue
    subprocess.run(['git', '-C', '/repo', 'checkout', '--', '.'], check=True)
    r = subprocess.run(['git', '-C', '/repo', 'apply', os.path.join(d, 'patch.diff')])
    if r.returncode != 0:
        rows.append((sid, 'PATCH DOES NOT APPLY'))
        continue
    import signal, tempfile
    outf = tempfile.TemporaryFile(mode='w+')
    proc = subprocess.Popen([os.path.join(VERIF, 'check'), pid, '--tier', 'quick', '--no-evidence'], stdout=outf, stderr=subprocess.DEVNULL,
                            start_new_session=True)
    try:
        rc = proc.wait(timeout=int(os.environ.get('SEED_TIMEOUT', '900')))
    except subprocess.TimeoutExpired:
        rc = 124
    finally:
        try:
            os.killpg(proc.pid, signal.SIGKILL)      # the check's worker pool as well
        except ProcessLookupError:
            pass
        subprocess.run(['git', '-C', '/repo', 'checkout', '--', '.'], check=True)
    outf.seek(0)
    out = outf.read()
    vio = [l for l in out.splitlines() if l.startswith('  obligation=')]
    first = vio[0].strip()[:400] if vio else ''
    inconc = [l for l in out.splitlines() if l.startswith('INCONCLUSIVE')]
    verdict = 'detected' if rc == 1 and any(l.startswith('VIOLATION') for l in out.splitlines()) else \
        ('inconclusive (exit 0, INCONCLUSIVE line)' if rc == 0 and inconc else 'missed (exit %d)' % rc)
    meta['detected_by'] = {'check': pid, 'tier': 'quick', 'exit': rc, 'verdict': verdict, 'first_counterexample': first,
                           'repo_head': subprocess.run(['git', '-C', '/repo', 'log', '--format=%h', '-1'], capture_output=True, text=True).stdout.strip()}
    json.dump(meta, open(os.path.join(d, 'meta.json'), 'w'), indent=1)
    rows.append((sid, verdict + ' | ' + first[:150]))
    print('%-8s %s' % rows[-1], flush=True)
for r in rows:
    print('%-8s %s' % r)
