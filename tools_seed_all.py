#!/usr/bin/env python3
"""Run every stored seeded change against its property's check (quick tier; thorough tier when quick does not
detect it) and record the outcome in meta.json.  The tree named by SEED_TREE (default /repo) is patched and restored
for each seed; do not run other checks against that tree concurrently."""
import json, os, subprocess, sys, glob, time
TREE = os.environ.get('SEED_TREE', '/repo')
VERIF = os.path.dirname(os.path.abspath(__file__))
reg = json.load(open(os.path.join(VERIF, 'MANIFEST.json')))
claimed = {c['property_id'] for c in reg['checks']}
only = sys.argv[1:]
import atexit
atexit.register(lambda: subprocess.run(['git', '-C', TREE, 'checkout', '--', '.']))
rows = []
for d in sorted(glob.glob(os.path.join(VERIF, 'seeded', '*'))):
    sid = os.path.basename(d)
    pid = sid.split('-')[0]
    if only and pid not in only and sid not in only:
        continue
    meta = json.load(open(os.path.join(d, 'meta.json')))
    if pid not in claimed:
        rows.append((sid, 'no check yet'))
        continue
    subprocess.run(['git', '-C', TREE, 'checkout', '--', '.'], check=True)
    r = subprocess.run(['git', '-C', TREE, 'apply', os.path.join(d, 'patch.diff')])
    if r.returncode != 0:
        rows.append((sid, 'PATCH DOES NOT APPLY'))
        continue
    import signal, tempfile

    def run_tier(tier, limit):
        outf = tempfile.TemporaryFile(mode='w+')
        env = dict(os.environ)
        if TREE != '/repo':
            env['PLOTINK_REPO'] = TREE
        t0 = time.time()
        proc = subprocess.Popen([os.path.join(VERIF, 'check'), pid, '--tier', tier, '--no-evidence'], stdout=outf, stderr=subprocess.DEVNULL,
                                start_new_session=True, env=env)
        try:
            rc = proc.wait(timeout=limit)
        except subprocess.TimeoutExpired:
            rc = 124
        finally:
            try:
                os.killpg(proc.pid, signal.SIGKILL)      # the check's worker pool as well
            except ProcessLookupError:
                pass
        outf.seek(0)
        return rc, outf.read(), round(time.time() - t0)
    try:
        tier = 'quick'
        rc, out, secs = run_tier('quick', int(os.environ.get('SEED_TIMEOUT', '900')))
        if not (rc == 1 and 'VIOLATION' in out) and os.environ.get('SEED_THOROUGH', '1') == '1':
            rc2, out2, secs2 = run_tier('thorough', int(os.environ.get('SEED_TIMEOUT_THOROUGH', '3600')))
            if rc2 == 1 and 'VIOLATION' in out2:
                tier, rc, out, secs = 'thorough (quick: exit %d)' % rc, rc2, out2, secs2
    finally:
        subprocess.run(['git', '-C', TREE, 'checkout', '--', '.'], check=True)
    vio = [l for l in out.splitlines() if l.startswith('  obligation=')]
    first = vio[0].strip()[:400] if vio else ''
    inconc = [l for l in out.splitlines() if l.startswith('INCONCLUSIVE')]
    verdict = 'detected' if rc == 1 and any(l.startswith('VIOLATION') for l in out.splitlines()) else \
        ('inconclusive (exit 0, INCONCLUSIVE line)' if rc == 0 and inconc else 'missed (exit %d)' % rc)
    meta['detected_by'] = {'check': pid, 'tier': tier, 'seconds': secs, 'exit': rc, 'verdict': verdict, 'first_counterexample': first,
                           'repo_head': subprocess.run(['git', '-C', TREE, 'log', '--format=%h', '-1'], capture_output=True, text=True).stdout.strip()}
    json.dump(meta, open(os.path.join(d, 'meta.json'), 'w'), indent=1)
    rows.append((sid, verdict + ' | ' + first[:150]))
    print('%-8s %s' % rows[-1], flush=True)
for r in rows:
    print('%-8s %s' % r)
