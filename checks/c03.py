"""C03 - step-limited (LM) move duration is the first tick that exhausts the step budget.

ebb_calc.calculate_lm (and ebb_motion.moveTimeLM) is executed on symbolic integers (steps, rate,
accel, accumulator or "clear").  mpmath is the exact-rational model of C01; rate/accel is an exact
rational with symbolic denominator; sqrt and the two quadratic roots are never given to the solver:
ceil(root) is a fresh integer constrained by inequalities from which the square root is eliminated by
squaring.  The oracle is the firmware recurrence itself, tick by tick: with K = T* (the oracle's own
finishing tick, enumerated as a case) S(k), P(k) = floor(S(k)/2^31) and the number of motor steps
n(k) = sum_{i<=k} |P(i) - P(i-1)| are linear terms; the precondition is "n(K) >= budget, n(K-1) <
budget and every per-tick |rate| <= 2^31 - 1"."""
import random

import mpmath
import z3

from pysx import engine, loader, calc, shims, lmroots
from pysx.harness import CheckBase, main, run_pinned, concrete, test_rows, NotPinned, active_findings
from pysx.values import SymInt, SymQ, PREC
from pysx.fracs import SymFrac

M31 = 1 << 31
RMAX = M31 - 1


def sim(steps, rate, accel, accum, limit=1 << 22):
    """The firmware recurrence, tick by tick (concrete).  Returns (T, pos, acc) or None if the budget is not reached
    within `limit` ticks or a per-tick rate leaves the signed 31-bit range."""
    if steps == 0 or (rate == 0 and accel == 0):
        return (0, 0, 0)
    if steps < 0:
        if rate < 0:
            return (0, 0, 0)
        steps, rate, accel = -steps, -rate, -accel
    r = rate - calc.py_trunc_div(accel, 2)
    if accum == "clear":
        r1 = r + accel
        accum = M31 - 1 if (r1 < 0 or (r1 == 0 and accel < 0)) else 0
    total, pos, n = accum, 0, 0
    for t in range(1, limit + 1):
        r += accel
        if abs(r) > RMAX:
            return None
        total += r
        p = total // M31
        n += abs(p - pos)
        pos = p
        if n >= steps:
            return (t, pos, total - pos * M31)
    return None


class LmMath(shims.MathShim):
    """math shim for calculate_lm: floor() of the reversal time is concretised when it is small."""

    def __init__(self, small):
        shims.MathShim.__init__(self, False)
        self.small = small
        self.floors = []

    def floor(self, x):
        if isinstance(x, SymFrac):
            r = engine.cur()
            n = x.floor_int("t_rev")
            self.floors.append(n.t)
            if r.branch(z3.And(n.t >= -self.small, n.t <= self.small)):
                return r.concretize(n.t)
            return n
        return shims.MathShim.floor(x)


def load(small, hints=()):
    ov = shims.std_overrides(real_tower=False)
    mp = lmroots.LmMpmath(shims.MpmathShim(), small, hints)
    ov["mpmath"] = mp
    ov["math"] = LmMath(small)
    ec = loader.load_plotink("ebb_calc", ov)
    return ec, mp


def zabs(t):
    return z3.If(t >= 0, t, -t)


class Check(CheckBase):
    pid = "C03"
    title = "LM move duration = first tick exhausting the budget"
    bounds = {"quick": {"T*": "oracle finishing tick K = 1..6 (each a case; the recurrence is unrolled to K ticks, so all oracle terms are linear)",
                        "inputs": "steps symbolic >= 1, rate/accel symbolic in [-(2^31-1), 2^31-1], accumulator symbolic in [0, 2^31) or 'clear'",
                        "code's own integers": "reversal tick and root ceilings concretised by solver-guided forking when |value| <= K+2, symbolic otherwise",
                        "legacy form": "negative step count with rate >= 0 (mirrored move), K = 1..4"},
              "thorough": {"T*": "K = 1..9 (K = 10 left one obligation undecided after 15 min; K = 14..16 needed 20-60 s per query)", "inputs": "as quick", "code's own integers": "as quick", "legacy form": "K = 1..6"}}
    outside = ["moves that need more ticks than the bound", "mp rounding of sqrt and of the root quotient at 103 bits (the exact root is an integer or at least 1/2^32 "
               "away from one while the rounding error is < 2^-38: paper argument)", "non-integer arguments"]
    stubs = ["mpmath: exact rationals; sqrt eliminated by squaring; ceil/floor of rationals with symbolic denominator = fresh integers with defining inequalities",
             "rate/accel (binary64 division) as an exact rational"]
    lemmas = ["the closed form S(k) is the recurrence: C01"]

    def functions_encoded(self):
        d = loader.encoded("ebb_calc", ["calculate_lm"])
        d.update(loader.encoded("ebb_motion", ["moveTimeLM"]))
        return d

    def cases(self, tier):
        kmax, kleg = (6, 4) if tier == "quick" else (9, 6)
        cs = [{"label": "no-move", "kind": "nomove"}]
        for K in range(1, kmax + 1):
            for mode in ("clear", "given"):
                cs.append({"label": "K%d/%s" % (K, mode), "kind": "move", "K": K, "mode": mode, "legacy": False, "split_depth": 6})
        for K in range(1, kleg + 1):
            cs.append({"label": "K%d/legacy" % K, "kind": "move", "K": K, "mode": "clear", "legacy": True, "split_depth": 6})
        cs.append({"label": "moveTimeLM", "kind": "alias", "K": 3})
        return cs

    def config(self, tier, case):
        return engine.Config(max_decisions=300, ob_rlimit=200_000_000, feas_rlimit=5_000_000)

    def expected_reach(self, tier):
        return ["no-move", "move"]

    def exclusions(self, rate, accel, r0, K):
        """known findings (predicates over the inputs); only those listed as 'finding' in known_findings.json are excluded"""
        act = active_findings(self.pid)
        R1, R2 = r0 + accel, r0 + 2 * accel
        preds = {
            "C03-D1-reversal-between-tick-1-and-2": z3.Or(z3.And(R1 > 0, R2 < 0), z3.And(R1 < 0, R2 > 0)),
        }
        return [(k, p) for k, p in preds.items() if k in act]

    def harness(self, run, case):
        calc.begin_path()
        kind = case["kind"]
        if kind == "nomove":
            ec, mp = load(4)
            s = run.int("steps", -M31, M31)
            r = run.int("rate", -RMAX, RMAX)
            a = run.int("accel", -RMAX, RMAX)
            run.assume(z3.Or(s.t == 0, z3.And(r.t == 0, a.t == 0), z3.And(s.t < 0, r.t < 0)))
            res = ec.calculate_lm(s, r, a)
            run.reach("no-move")
            run.prove("requests-that-cannot-move-report-(0,0,0)", z3.BoolVal(tuple(res) == (0, 0, 0)), info={"returned": repr(res)})
            return
        K = case["K"]
        ec, mp = load(K + 2, hints=(K,))
        steps = run.int("steps", 1, M31)
        rate = run.int("rate", -RMAX, RMAX)
        accel = run.int("accel", -RMAX, RMAX)
        legacy = case.get("legacy", False)
        mode = case.get("mode", "clear")
        if kind == "alias":
            # the deprecated wrapper must delegate: same move, cleared accumulator, and hand back the duration
            seen = []
            tok = (run.int("t_out", 0, 1 << 40), run.int("d_out", -M31, M31), run.int("a_out", 0, M31))

            def recorder(*a, **kw):
                seen.append((a, kw))
                return tok
            ec.calculate_lm = recorder
            em = calc.load_ebb_motion(ec)
            t1 = em.moveTimeLM(rate, steps, accel)
            run.reach("move")
            ok = len(seen) == 1 and t1 is tok[0]
            if ok:
                a, kw = seen[0]
                bound = dict(zip(("steps", "rate", "accel", "accum"), a))
                bound.update(kw)
                ok = bound.get("steps") is steps and bound.get("rate") is rate and bound.get("accel") is accel and bound.get("accum", "clear") == "clear"
            run.prove("moveTimeLM-delegates-to-calculate_lm-and-returns-its-duration", z3.BoolVal(bool(ok)))
            return
        if mode == "given":
            accum = run.int("accum", 0, M31 - 1)
        # ---- oracle: the recurrence, tick by tick (K concrete) ------------------------------------------------------
        if legacy:
            run.assume(rate.t >= 0)
            o_rate, o_accel = -rate.t, -accel.t
        else:
            o_rate, o_accel = rate.t, accel.t
        r0 = o_rate - calc.trunc2(o_accel)
        if mode == "given":
            acc0 = accum.t
        else:
            r1 = r0 + o_accel
            acc0 = z3.If(z3.Or(r1 < 0, z3.And(r1 == 0, o_accel < 0)), M31 - 1, 0)
        S = [acc0 + r0 * k + o_accel * (k * (k + 1) // 2) for k in range(K + 1)]
        P = [s_ / M31 for s_ in S]
        n = [z3.IntVal(0)]
        for k in range(1, K + 1):
            n.append(n[-1] + zabs(P[k] - P[k - 1]))
        run.assume(z3.And([zabs(r0 + k * o_accel) <= RMAX for k in range(1, K + 1)]))
        run.assume(z3.And(n[K] >= steps.t, n[K - 1] < steps.t))
        # ---- the real code -------------------------------------------------------------------------------------------------
        c_steps = SymInt(-steps.t, bound=M31) if legacy else steps
        if mode == "given":
            res = ec.calculate_lm(c_steps, rate, accel, accum)
        else:
            res = ec.calculate_lm(c_steps, rate, accel)
        run.reach("move")
        t, pos, acc = res
        tz = t.t if isinstance(t, SymInt) else z3.IntVal(t)
        pz = pos.t if isinstance(pos, SymInt) else z3.IntVal(pos)
        az = acc.t if isinstance(acc, SymInt) else z3.IntVal(acc)
        ex = self.exclusions(o_rate, o_accel, r0, K)
        tag = "legacy" if legacy else mode
        run.prove(tag + ":duration-is-first-tick-reaching-the-budget", tz == K, exclude=ex)
        run.prove(tag + ":position-is-the-recurrence-value", pz == P[K], exclude=ex)
        run.prove(tag + ":accumulator-is-the-recurrence-value", z3.And(az == S[K] - M31 * P[K], az >= 0, az < M31), exclude=ex)
        if PREC.ambient_ops:
            calc.precision_obligations(run, tag)

    # ---------------------------------------------------------------------------------------------
    def replay(self, cex):
        ec = loader.native("ebb_calc")
        em = loader.native("ebb_motion")
        i = cex["inputs"]
        label = cex["case"]
        steps, rate, accel = int(i["steps"]), int(i["rate"]), int(i["accel"])
        if label == "no-move":
            got = ec.calculate_lm(steps, rate, accel)
            return None if tuple(got) == (0, 0, 0) else {"call": "calculate_lm(%d,%d,%d)" % (steps, rate, accel), "got": [str(g) for g in got]}
        if label == "moveTimeLM":
            for (st_, ra, ac) in ((5, 268435456, 0), (29, 1800095000, -26012345), (3, -10, 35111222)):
                a, b = em.moveTimeLM(ra, st_, ac), ec.calculate_lm(st_, ra, ac, "clear")[0]
                if a != b:
                    return {"moveTimeLM(%d,%d,%d)" % (ra, st_, ac): a, "calculate_lm duration": b}
            return None
        legacy = label.endswith("legacy")
        accum = int(i["accum"]) if "accum" in i else "clear"
        if legacy:
            steps = -steps
        exp = sim(steps, rate, accel, accum)
        if exp is None:
            return None
        precs = [53]
        if "ambient_B" in i:
            precs.insert(0, max(1, int(i["ambient_B"]).bit_length() - 1))
        saved = mpmath.mp.prec
        try:
            for p in precs:
                mpmath.mp.prec = p
                got = ec.calculate_lm(steps, rate, accel, accum) if accum != "clear" else ec.calculate_lm(steps, rate, accel)
                if tuple(int(g) for g in got) != exp:
                    return {"call": "calculate_lm(%d,%d,%d,%r)" % (steps, rate, accel, accum), "got": [str(g) for g in got], "recurrence": list(exp)}
        finally:
            mpmath.mp.prec = saved
        return None

    def validate(self, tier, seed):
        rnd = random.Random(seed)
        nat = loader.native("ebb_calc")
        rows = []
        for v in test_rows("test_ebb_calc.py", "test_calculate_lm"):
            if isinstance(v, (list, tuple)) and len(v) >= 3 and all(isinstance(x, int) for x in v[:3]):
                rows.append((v[0], v[1], v[2], v[3] if len(v) > 3 and (isinstance(v[3], int) or v[3] == "clear") else "clear"))
        assert len(rows) >= 10, "could not read the repository's calculate_lm test table"
        for _ in range(30):
            rows.append((rnd.randint(1, 6), rnd.randint(-RMAX, RMAX), rnd.randint(-RMAX, RMAX), rnd.choice(["clear", rnd.randint(0, M31 - 1)])))
        n = 0

        def sym(v):
            return SymInt(z3.IntVal(v), bound=abs(v))
        for (steps, rate, accel, accum) in rows[:80]:
            exp = nat.calculate_lm(steps, rate, accel, accum)

            def h(run):
                calc.begin_path()
                ec, mp = load(1 << 40)
                r = ec.calculate_lm(sym(steps), sym(rate), sym(accel), accum if accum == "clear" else sym(accum))
                return concrete(tuple(r))
            try:
                got = run_pinned(h)
            except NotPinned:
                continue          # result depends on a rounding direction the model leaves open
            assert tuple(got) == tuple(int(x) for x in exp), "translator validation failed on calculate_lm%r: %r vs %r" % ((steps, rate, accel, accum), got, exp)
            n += 1
        return n


if __name__ == "__main__":
    main(Check())
