"""C11 - viewBox scaling follows the SVG preserveAspectRatio rules.

plot_utils.vb_scale is executed on a viewBox string made of four opaque numeral atoms (their values are
unbounded symbolic reals) joined by symbolic separator characters, a preserveAspectRatio string generated
from the SVG grammar  ws* ['defer' sep] align [sep meetOrSlice] ws*  with the case of every letter and
every separator character symbolic, and symbolic document sizes.  The returned scale/offset are
compared (non-linear real arithmetic, cross-multiplied) with SVG 1.1 section 7.8 restated in the
harness.  Malformed inputs must give the identity transform."""
import itertools
import random
from fractions import Fraction

import z3

from pysx import engine, loader, shims
from pysx.harness import CheckBase, main, run_pinned, concrete
from pysx.strs import SymStr, Atom
from pysx.values import SymReal, zreal

ALIGNS = ["none"] + ["x%sy%s" % (a, b) for a in ("min", "mid", "max") for b in ("min", "mid", "max")]
SVG_SPELL = {"xminymin": "xMinYMin", "xmidymin": "xMidYMin", "xmaxymin": "xMaxYMin", "xminymid": "xMinYMid", "xmidymid": "xMidYMid",
             "xmaxymid": "xMaxYMid", "xminymax": "xMinYMax", "xmidymax": "xMidYMax", "xmaxymax": "xMaxYMax", "none": "none"}
SEPS = (32, 9, 44)


def load():
    return loader.load_plotink("plot_utils", shims.std_overrides(real_tower=True))


def word(run, text, tag):
    """letters with a symbolic case each"""
    out = []
    for k, ch in enumerate(text):
        if ch.isalpha():
            c = run.fresh_int("%s_%d" % (tag, k))
            run.inputs["%s_%d" % (tag, k)] = c
            run._add(z3.Or(c == ord(ch.lower()), c == ord(ch.upper())))
            out.append(c)
        else:
            out.append(ch)
    return out


def sep(run, tag, n, codes=SEPS):
    out = []
    for k in range(n):
        c = run.fresh_int("%s_%d" % (tag, k))
        run.inputs["%s_%d" % (tag, k)] = c
        run._add(z3.Or([c == x for x in codes]))
        out.append(c)
    return out


def model_text(inputs, tag, template):
    """rebuild a word / separator run from the model"""
    out = ""
    for k, ch in enumerate(template):
        key = "%s_%d" % (tag, k)
        out += chr(int(inputs[key])) if key in inputs else ch
    return out


class Check(CheckBase):
    pid = "C11"
    title = "viewBox scaling"
    bounds = {"numbers": "min-x, min-y, width, height, doc width, doc height: unbounded symbolic reals",
              "preserveAspectRatio": "None, or ws* ['defer' sep] align [sep meet|slice] ws* with align in none + 9, every letter's case symbolic, "
              "separators 1-2 symbolic characters from space/tab/comma, optional outer blank",
              "viewBox text": "four numeral atoms joined by 1-2 symbolic separator characters (space/tab/comma) with optional outer blanks; "
              "also None, 0-3 atoms, and a non-numeric token in each position"}
    outside = ["binary64 rounding (exact-real model)", "preserveAspectRatio values outside the grammar", "numerals are opaque atoms: float() of an atom is its value "
               "(the parsing of the digits themselves is C-level)"]
    stubs = ["float(atom) -> the atom's symbolic real, or ValueError for an atom flagged non-numeric"]

    def functions_encoded(self):
        return loader.encoded("plot_utils", ["vb_scale"])

    def cases(self, tier):
        cs = [{"label": "par/None", "par": None}]
        for al in ALIGNS:
            for mos in (None, "meet", "slice"):
                for defer in (False, True):
                    cs.append({"label": "par/%s%s/%s" % ("defer+" if defer else "", al, mos or "-"), "par": (defer, al, mos)})
        cs.append({"label": "vb/separators", "par": None, "vbsep": True})
        cs.append({"label": "vb/None", "par": None, "vb": "none"})
        for k in range(0, 4):
            cs.append({"label": "vb/%d-atoms" % k, "par": (False, "xmidymid", "meet"), "vb": k})
        for k in range(4):
            cs.append({"label": "vb/non-numeric-token-%d" % k, "par": (False, "xmaxymin", "slice"), "vb": "bad%d" % k})
        cs.append({"label": "vb/5-atoms", "par": None, "vb": 5})
        # every case again after two earlier calls in the same interpreter (no state may leak between calls)
        cs += [dict(c, label=c["label"] + "/after-earlier-calls", prior=True) for c in list(cs)]
        return cs

    def config(self, tier, case):
        return engine.Config(logic="QF_NRA", fresh_feas=True, max_decisions=400, ob_rlimit=300_000_000)

    def expected_reach(self, tier):
        return ["identity:None", "identity:short", "identity:nonpositive", "none", "uniform:meet", "uniform:slice"]

    def harness(self, run, case):
        pu = load()
        nums = {k: run.real(k) for k in ("min_x", "min_y", "width", "height", "doc_w", "doc_h")}
        vb_mode = case.get("vb", 4)
        atoms = [Atom(k, nums[k], True) for k in ("min_x", "min_y", "width", "height")]
        if isinstance(vb_mode, str) and vb_mode.startswith("bad"):
            atoms[int(vb_mode[3:])].valid = False
        if vb_mode == "none":
            v_b = None
        else:
            n_atoms = 4 if isinstance(vb_mode, str) else vb_mode
            els = []
            if case.get("vbsep"):
                els += sep(run, "vb_lead", 1, (32, 9))
            for k in range(n_atoms):
                if k:
                    els += sep(run, "vb_sep%d" % k, 2 if case.get("vbsep") else 1) if case.get("vbsep") else [" "]
                els.append(atoms[k] if k < 4 else Atom("extra", run.real("extra"), True))
            if case.get("vbsep"):
                els += sep(run, "vb_trail", 1, (32, 9))
            v_b = SymStr(els)
        par = case["par"]
        if par is None:
            p_a_r = None
            defer, al, mos = False, "xmidymid", "meet"
        else:
            defer, al, mos = par
            els = sep(run, "par_lead", 1, (32, 9))
            if defer:
                els += word(run, "defer", "w_defer") + sep(run, "par_sep0", 2)
            els += word(run, SVG_SPELL[al], "w_align")
            if mos:
                els += sep(run, "par_sep1", 2) + word(run, mos, "w_mos")
            els += sep(run, "par_trail", 1, (32, 9))
            p_a_r = SymStr(els)
        if case.get("prior"):
            pu.vb_scale("0 0 10 20", "xMinYMin slice", 100, 100)
            pu.vb_scale("-5,-5,40,10", "defer xMaxYMax meet", 7, 70)
        try:
            res = pu.vb_scale(v_b, p_a_r, nums["doc_w"], nums["doc_h"])
        except Exception as ex:
            run.prove("no-exception", z3.BoolVal(False), info={"raised": repr(ex)[:200]})
            return
        ok = isinstance(res, tuple) and len(res) == 4
        if not ok:
            run.prove("returns-four-numbers", z3.BoolVal(False), info={"returned": repr(res)[:100]})
            return
        sx, sy, ox, oy = (zreal(v) for v in res)
        mnx, mny, w, h, W, H = (nums[k].t for k in ("min_x", "min_y", "width", "height", "doc_w", "doc_h"))
        ident = z3.And(sx == 1, sy == 1, ox == 0, oy == 0)
        malformed = vb_mode == "none" or (isinstance(vb_mode, int) and vb_mode < 4) or (isinstance(vb_mode, str) and vb_mode.startswith("bad"))
        if malformed:
            run.reach("identity:None" if vb_mode == "none" else "identity:short")
            run.prove("missing-or-malformed-viewBox-gives-identity", ident)
            return
        valid = z3.And(w > 0, h > 0, W > 0, H > 0)
        if not run.branch(valid):
            run.reach("identity:nonpositive")
            run.prove("non-positive-size-gives-identity", ident)
            return
        if al == "none":
            run.reach("none")
            run.prove("none:stretch-each-axis", z3.And(sx * w == W, sy * h == H, ox == -mnx, oy == -mny))
            return
        mos = mos or "meet"
        run.reach("uniform:" + mos)
        # uniform scale s: meet -> the smaller of W/w, H/h; slice -> the larger   (s*w*h compared via cross-multiplication)
        rx_le_ry = W * h <= H * w      # W/w <= H/h
        if mos == "meet":
            s_is = z3.If(rx_le_ry, sx * w == W, sx * h == H)
        else:
            s_is = z3.If(rx_le_ry, sx * h == H, sx * w == W)
        run.prove("uniform-scale-is-%s-axis-ratio" % ("smaller" if mos == "meet" else "larger"), z3.And(sx == sy, s_is))
        xa, ya = al[1:4], al[5:8]

        def aligned(vmin, vlen, o, s, page, how):
            if how == "min":
                return (vmin + o) * s == 0
            if how == "mid":
                return (vmin + vlen / 2 + o) * s * 2 == page
            return (vmin + vlen + o) * s == page
        run.prove("x-alignment-%s" % xa, aligned(mnx, w, ox, sx, W, xa))
        run.prove("y-alignment-%s" % ya, aligned(mny, h, oy, sy, H, ya))

    # ------------------------------------------------------------------------------------------------
    def replay(self, cex):
        pu = loader.native("plot_utils")
        case = next(c for c in self.cases("quick") if c["label"] == cex["case"])
        i = cex["inputs"]
        F = Fraction
        v = {k: F(i[k]) for k in ("min_x", "min_y", "width", "height", "doc_w", "doc_h")}
        vb_mode = case.get("vb", 4)

        class Num(str):
            """a numeral token whose float() is an exact Fraction (the real code calls float(token))"""
        toks = ["%s" % k for k in ("min_x", "min_y", "width", "height")]
        if vb_mode == "none":
            v_b = None
            vals = None
        else:
            n_atoms = 4 if isinstance(vb_mode, str) else vb_mode
            names = ["min_x", "min_y", "width", "height", "extra"][:n_atoms]
            parts = []
            if case.get("vbsep"):
                parts.append(model_text(i, "vb_lead", "?"))
            for k, nm in enumerate(names):
                if k:
                    parts.append(model_text(i, "vb_sep%d" % k, "??") if case.get("vbsep") else " ")
                bad = isinstance(vb_mode, str) and vb_mode.startswith("bad") and int(vb_mode[3:]) == k
                val = F(i.get(nm, 0))
                parts.append("abc" if bad else repr(float(val)))
            if case.get("vbsep"):
                parts.append(model_text(i, "vb_trail", "?"))
            v_b = "".join(parts)
        par = case["par"]
        if par is None:
            p_a_r = None
            al, mos = "xmidymid", "meet"
        else:
            defer, al, mos = par
            s = model_text(i, "par_lead", "?")
            if defer:
                s += model_text(i, "w_defer", "defer") + model_text(i, "par_sep0", "??")
            s += model_text(i, "w_align", SVG_SPELL[al])
            if mos:
                s += model_text(i, "par_sep1", "??") + model_text(i, "w_mos", mos)
            s += model_text(i, "par_trail", "?")
            p_a_r = s
            mos = mos or "meet"
        # exact arithmetic: give the real code Fractions for the document size and patch float() of the tokens by
        # using numbers that binary64 represents exactly when possible; otherwise compare with a relative tolerance
        if case.get("prior"):
            pu.vb_scale("0 0 10 20", "xMinYMin slice", 100, 100)
            pu.vb_scale("-5,-5,40,10", "defer xMaxYMax meet", 7, 70)
        try:
            res = pu.vb_scale(v_b, p_a_r, float(v["doc_w"]), float(v["doc_h"]))
        except Exception as ex:
            return {"viewBox": v_b, "preserveAspectRatio": p_a_r, "raised": repr(ex)}
        w, h, W, H, mnx, mny = (float(v[k]) for k in ("width", "height", "doc_w", "doc_h", "min_x", "min_y"))
        malformed = vb_mode == "none" or (isinstance(vb_mode, int) and vb_mode < 4) or (isinstance(vb_mode, str) and vb_mode.startswith("bad"))
        if malformed or not (w > 0 and h > 0 and W > 0 and H > 0):
            exp = (1, 1, 0, 0)
        elif al == "none":
            exp = (W / w, H / h, -mnx, -mny)
        else:
            s = min(W / w, H / h) if mos == "meet" else max(W / w, H / h)

            def off(vmin, vlen, page, how):
                if how == "min":
                    return -vmin
                if how == "mid":
                    return page / (2 * s) - vlen / 2 - vmin
                return page / s - vlen - vmin
            exp = (s, s, off(mnx, w, W, al[1:4]), off(mny, h, H, al[5:8]))

        def close(a, b):
            return abs(a - b) <= 1e-9 * max(1.0, abs(a), abs(b))
        if not all(close(float(a), float(b)) for a, b in zip(res, exp)):
            return {"viewBox": v_b, "preserveAspectRatio": p_a_r, "doc": [W, H], "returned": [float(x) for x in res], "expected": [float(x) for x in exp]}
        return None

    def validate(self, tier, seed):
        rnd = random.Random(seed)
        nat = loader.native("plot_utils")
        n = 0
        pars = [None, "xMidYMid meet", "xMinYMax slice", "none", "defer xMaxYMin", " XMIDYMIN,SLICE ", "defer none slice", "xminymid"]
        for _ in range(40):
            vals = [rnd.choice([0, 1, 2, 5, 10, 100, 297, 210, -3]) for _ in range(4)]
            W, H = rnd.choice([100, 200, 297, 0]), rnd.choice([100, 50, 210])
            vb = rnd.choice([" ", ","]).join(str(x) for x in vals)
            par = rnd.choice(pars)
            exp = nat.vb_scale(vb, par, W, H)

            def h(run):
                pu = load()
                atoms = [Atom("a%d" % k, SymReal.of(Fraction(x)), True) for k, x in enumerate(vals)]
                els = []
                for k, a in enumerate(atoms):
                    if k:
                        els.append(" ")
                    els.append(a)
                r = pu.vb_scale(SymStr(els), None if par is None else SymStr(tuple(par)), SymReal.of(W), SymReal.of(H))
                return tuple(concrete(x) for x in r)
            got = run_pinned(h, engine.Config(logic="QF_NRA", fresh_feas=True))
            assert all(abs(float(a) - float(b)) < 1e-9 * max(1, abs(float(b))) for a, b in zip(got, exp)), \
                "translator validation failed: %r %r %r %r: %r vs %r" % (vb, par, W, H, got, exp)
            n += 1
        return n


if __name__ == "__main__":
    main(Check())
