"""C17 - the reported peak T3 rate brackets the true peak within one jerk increment.

ebb_calc.max_rate_t3 (and the rate_t3 it calls) is executed on symbolic integers.  The vertex time
t_mid = (jerk/2 - accel)/jerk is an exact rational with symbolic denominator (comparisons are
cross-multiplied after a fork on the sign of jerk); ceil() is a fresh integer with its defining
inequalities.  Every tick at which the code evaluates the rate is logged and proved to lie in 1..T, so
the reported value never exceeds the true peak; and no tick k in 1..T has |R(k)| > reported + |jerk|,
with R(k) the closed form of the recurrence (proved in C02 to be the recurrence and to equal rate_t3)."""
import random

import z3

from pysx import engine, loader, calc
from pysx.harness import CheckBase, main, run_pinned, concrete, test_rows, NotPinned
from pysx.values import SymInt
from checks.c02 import zR, R_py

RMAX = 1 << 31
QUICK_T = [1, 2, 3, 4, 5, 6, 7, 8, 10, 12, 16, 24, 32, 48, 64]
THOROUGH_T = list(range(1, 41)) + [48, 56, 64, 80, 96, 128, 160, 192, 256]


def zabs(t):
    return z3.If(t >= 0, t, -t)


class Check(CheckBase):
    pid = "C17"
    title = "reported peak T3 rate"
    bounds = {"quick": {"rate/accel/jerk": "symbolic in [-2^31, 2^31]", "T": "each of %s, the quantifier over ticks k = 1..T unrolled" % QUICK_T,
                        "binary64": "|jerk|*T^2 < 2^40 and |accel|*T < 2^40 (as in C02: every float intermediate of rate_t3 is then exact)"},
              "thorough": {"rate/accel/jerk": "as quick", "T": "each of 1..40 and %s, unrolled; T = 1024 and 2048 with the turning point confined to 9 ticks at the start, middle or end of the move" % THOROUGH_T[40:], "binary64": "as quick"}}
    outside = ["T above the bound (symbolic T left z3 without an answer on the vertex-right case in the design probes)",
               "float rounding of t_mid itself: it can move ceil() by one tick only when t_mid is within 2^-52 relative of an integer, where the "
               "neighbouring tick differs by |jerk|/2 (paper argument)", "non-integer arguments"]
    stubs = ["t_mid: exact rational with symbolic denominator; math.ceil: fresh integer with defining inequalities, concretised by forking (bounded by T)",
             "binary64 arithmetic of rate_t3: exact rationals with exactness proved per operation"]
    lemmas = ["R(k) = rate_t3(k) and R is the firmware recurrence: C02"]

    def functions_encoded(self):
        return loader.encoded("ebb_calc", ["max_rate_t3", "rate_t3"])

    def cases(self, tier):
        cs = [{"label": "T%d" % t, "T": t} for t in (QUICK_T if tier == "quick" else THOROUGH_T)]
        # the same move parameters after an earlier call with a different duration (no state may survive between calls)
        for t, t0 in ((2, 12), (12, 3), (32, 2)) if tier == "quick" else ((2, 12), (3, 20), (12, 3), (20, 2), (32, 2), (64, 4)):
            cs.append({"label": "T%d/after-T%d" % (t, t0), "T": t, "prior_T": t0, "split_depth": 5})
        # long moves: T in the thousands with the turning point of the rate parabola confined to a window of 9 ticks at the
        # start, the middle or the end of the move (an assumption on accel/jerk, linear once the sign of jerk is fixed), so the
        # fork over the evaluated tick stays small while the quantifier over all T ticks is still unrolled in the oracle
        # (thorough tier only: an obligation over 2048 ticks takes about 20 s)
        for t in (() if tier == "quick" else (1024, 2048)):
            for name, lo in (("start", 2), ("mid", t // 2 - 4), ("end", t - 10)):
                cs.append({"label": "T%d/vertex@%s" % (t, name), "T": t, "window": (lo, lo + 8), "split_depth": 4})
        return cs

    def config(self, tier, case):
        return engine.Config(max_decisions=800, ob_rlimit=600_000_000, max_alternatives=48)

    def expected_reach(self, tier):
        return ["T<=1", "jerk=0", "vertex-inside", "vertex-outside"]

    def harness(self, run, case):
        calc.begin_path()
        ec = calc.load_ebb_calc()
        T = case["T"]
        rate = run.int("rate", -RMAX, RMAX)
        accel = run.int("accel", -RMAX, RMAX)
        jerk = run.int("jerk", -RMAX, RMAX)
        run.assume(zabs(jerk.t) * T * T < (1 << 40))
        run.assume(zabs(accel.t) * T < (1 << 40))
        if case.get("window"):
            lo, hi = case["window"]          # lo <= 1/2 - accel/jerk <= hi
            a2, j = 2 * accel.t, jerk.t
            run.assume(z3.Or(z3.And(j > 0, (1 - 2 * hi) * j <= a2, a2 <= (1 - 2 * lo) * j),
                             z3.And(j < 0, (1 - 2 * hi) * j >= a2, a2 >= (1 - 2 * lo) * j)))
        ticks = []
        real_rate = ec.rate_t3

        def logging_rate(time, *a):
            if isinstance(time, SymInt):
                k = run.concretize(time.t, limit=300)       # bounded by the path condition (1.5 < t_mid < T - 1.5)
                time = k
            ticks.append(time)
            return real_rate(time, *a)
        ec.rate_t3 = logging_rate
        if case.get("prior_T"):
            run.assume(zabs(jerk.t) * case["prior_T"] ** 2 < (1 << 40))
            run.assume(zabs(accel.t) * case["prior_T"] < (1 << 40))
            ec.max_rate_t3(case["prior_T"], rate, accel, jerk)
            del ticks[:]
        res = ec.max_rate_t3(T, rate, accel, jerk)
        if T <= 1:
            run.reach("T<=1")
        else:
            m = run.model
            j0 = m is not None and engine.model_value(m, jerk.t) == 0
            run.reach("jerk=0" if j0 else ("vertex-inside" if len(ticks) == 3 else "vertex-outside"))
        assert isinstance(res, (SymInt, int))
        rep = res.t if isinstance(res, SymInt) else z3.IntVal(res)
        run.prove("evaluated-ticks-lie-in-1..T", z3.BoolVal(all(isinstance(k, int) and 1 <= k <= T for k in ticks)), info={"ticks": [str(k) for k in ticks]})
        R2 = [zR(z3.IntVal(k), rate.t, accel.t, jerk.t) for k in range(1, T + 1)]     # 2*R(k)
        run.prove("reported-does-not-exceed-the-true-peak", z3.Or([2 * rep <= zabs(r) for r in R2]))
        run.prove("reported-at-least-first-and-last-tick", z3.And(2 * rep >= zabs(R2[0]), 2 * rep >= zabs(R2[-1])))
        run.prove("true-peak-within-one-jerk-of-reported", z3.And([zabs(r) <= 2 * rep + 2 * zabs(jerk.t) for r in R2]))
        calc.precision_obligations(run, "max_rate_t3")

    def replay(self, cex):
        ec = loader.native("ebb_calc")
        i = cex["inputs"]
        lab = cex["case"]
        T = int(lab[1:].split("/")[0])
        rate, accel, jerk = int(i["rate"]), int(i["accel"]), int(i["jerk"])
        if "/after-T" in lab:
            ec.max_rate_t3(int(lab.split("after-T")[1]), rate, accel, jerk)
        got = ec.max_rate_t3(T, rate, accel, jerk)
        Rs = [abs(R_py(k, rate, accel, jerk)) for k in range(1, T + 1)]
        peak = max(Rs)
        if got > peak or got < Rs[0] or got < Rs[-1] or peak > got + abs(jerk) or type(got) is not int:
            return {"call": "max_rate_t3(%d,%d,%d,%d)" % (T, rate, accel, jerk), "reported": got, "true_peak": peak, "first": Rs[0], "last": Rs[-1], "jerk": jerk}
        return None

    def validate(self, tier, seed):
        rnd = random.Random(seed)
        nat = loader.native("ebb_calc")
        rows = [tuple(v[:4]) for v in test_rows("test_ebb_calc.py", "test_max_rate_t3", 5) if all(isinstance(x, int) for x in v[:4])]
        assert len(rows) >= 10, "could not read the repository's max_rate_t3 test table"
        for _ in range(40):
            rows.append((rnd.randint(1, 3000), rnd.randint(-RMAX, RMAX), rnd.randint(-200000, 200000), rnd.randint(-300, 300)))
        n = 0

        def sym(v):
            return SymInt(z3.IntVal(v), bound=abs(v))
        for (T, rate, accel, jerk) in rows:
            if T < 1:
                continue
            exp = nat.max_rate_t3(T, rate, accel, jerk)

            def h(run):
                calc.begin_path()
                ec = calc.load_ebb_calc()
                return concrete(ec.max_rate_t3(T, sym(rate), sym(accel), sym(jerk)))
            try:
                got = run_pinned(h)
            except NotPinned:
                continue          # result depends on a rounding direction the model leaves open
            assert got == exp, "translator validation failed on max_rate_t3%r: %r vs %r" % ((T, rate, accel, jerk), got, exp)
            n += 1
        return n


if __name__ == "__main__":
    main(Check())
