"""C18 - travel-limit helpers return an in-range value and flag exactly the outliers.

Symbolic execution of plot_utils.checkLimits / checkLimitsTol / constrainLimits / point_in_bounds on
unbounded reals; every path ends in linear-real-arithmetic obligations."""
import random
from fractions import Fraction

import z3

from pysx import engine, loader, shims
from pysx.harness import CheckBase, main
from pysx.values import SymReal, SymBool, zbool, zreal

FUNCS = ["checkLimits", "checkLimitsTol", "constrainLimits", "point_in_bounds"]


def load():
    return loader.load_plotink("plot_utils", shims.std_overrides(real_tower=True))


def zb(x):
    return zbool(x) if isinstance(x, (bool, SymBool)) else x


class Check(CheckBase):
    pid = "C18"
    title = "travel-limit helpers"
    bounds = {"reals": "unbounded (all reals); lower <= upper; tolerance >= 0",
              "point_in_bounds": "tolerance symbolic >= 0 and the default (1e-9) as a separate case"}
    outside = ["NaN and infinities", "binary64 rounding of bound +/- tolerance (floats are modelled as exact reals)"]
    stubs = ["min/max: If-terms instead of comparisons (no fork)"]
    assumptions = ["lower_bound <= upper_bound", "tolerance >= 0"]

    def functions_encoded(self):
        return loader.encoded("plot_utils", FUNCS)

    def cases(self, tier):
        return [{"label": f} for f in ["checkLimits", "checkLimitsTol", "constrainLimits", "point_in_bounds",
                                       "point_in_bounds_default_tol", "point_in_bounds_history"]]

    def config(self, tier, case):
        return engine.Config(logic="QF_LRA")

    def expected_reach(self, tier):
        return ["checkLimits:above", "checkLimits:below", "checkLimits:inside", "tol:above-flag", "tol:above-noflag",
                "tol:below-flag", "tol:below-noflag", "tol:inside", "constrain", "pib:True", "pib:False",
                "pibd:True", "pibd:False", "pibh:True", "pibh:False"]

    # oracle pieces ---------------------------------------------------------------------------
    @staticmethod
    def clamp(v, lo, hi):
        return z3.If(v > hi, hi, z3.If(v < lo, lo, v))

    def harness(self, run, case):
        pu = load()
        f = case["label"]
        v, lo, hi = run.real("value"), run.real("lower"), run.real("upper")
        run.assume(lo <= hi)
        if f == "checkLimits":
            res, flag = pu.checkLimits(v, lo, hi)
            run.reach("checkLimits:" + ("above" if res is hi else "below" if res is lo else "inside"))
            run.prove("checkLimits:value", zreal(res) == self.clamp(v.t, lo.t, hi.t))
            run.prove("checkLimits:in-range", z3.And(zreal(res) >= lo.t, zreal(res) <= hi.t))
            run.prove("checkLimits:flag", zb(flag) == z3.Or(v.t < lo.t, v.t > hi.t))
        elif f == "checkLimitsTol":
            tol = run.real("tol")
            run.assume(tol >= 0)
            res, flag = pu.checkLimitsTol(v, lo, hi, tol)
            side = "above" if res is hi else "below" if res is lo else "inside"
            run.reach("tol:" + side + ("" if side == "inside" else ("-flag" if flag is True else "-noflag")))
            run.prove("checkLimitsTol:value", zreal(res) == self.clamp(v.t, lo.t, hi.t))
            run.prove("checkLimitsTol:in-range", z3.And(zreal(res) >= lo.t, zreal(res) <= hi.t))
            run.prove("checkLimitsTol:flag", zb(flag) == z3.Or(v.t < lo.t - tol.t, v.t > hi.t + tol.t))
        elif f == "constrainLimits":
            res = pu.constrainLimits(v, lo, hi)
            run.reach("constrain")
            run.prove("constrainLimits:value", zreal(res) == self.clamp(v.t, lo.t, hi.t))
            run.prove("constrainLimits:in-range", z3.And(zreal(res) >= lo.t, zreal(res) <= hi.t))
        else:
            y, ylo, yhi = run.real("y"), run.real("ylower"), run.real("yupper")
            run.assume(ylo <= yhi)
            if f == "point_in_bounds_history":
                # an earlier call with the same list objects (concrete values), then the caller edits the bounds in
                # place: the answer must depend on the current contents only (no state kept between calls)
                tol = run.real("tol")
                run.assume(tol >= 0)
                bounds = [[0, 0], [10, 10]]
                pt = [7, 5]
                for _ in range(2):
                    pu.point_in_bounds(pt, bounds, tol)
                    pu.checkLimitsTol(7, 0, 10, tol)
                bounds[0][0], bounds[0][1], bounds[1][0], bounds[1][1] = lo, ylo, hi, yhi
                pt[0], pt[1] = v, y
                res = pu.point_in_bounds(pt, bounds, tol)
                tt = tol.t
                tag = "pibh:"
            elif f == "point_in_bounds":
                tol = run.real("tol")
                run.assume(tol >= 0)
                res = pu.point_in_bounds([v, y], [[lo, ylo], [hi, yhi]], tol)
                tt = tol.t
                tag = "pib:"
            else:
                res = pu.point_in_bounds([v, y], [[lo, ylo], [hi, yhi]])
                tt = z3.RealVal("1/1000000000")
                tag = "pibd:"
            if isinstance(res, SymBool):
                res = bool(res)          # a comparison returned unevaluated: decide it on this path (fork)
            assert isinstance(res, bool), "point_in_bounds must return a bool"
            run.reach(tag + str(res))
            # agreement with the tolerant checker applied per coordinate (executed symbolically too)
            _rx, fx = pu.checkLimitsTol(v, lo, hi, SymReal(tt))
            _ry, fy = pu.checkLimitsTol(y, ylo, yhi, SymReal(tt))
            run.prove(f + ":agrees-with-checkLimitsTol", z3.BoolVal(res) == z3.Not(z3.Or(zb(fx), zb(fy))))
            run.prove(f + ":spec", z3.BoolVal(res) == z3.And(v.t >= lo.t - tt, v.t <= hi.t + tt,
                                                               y.t >= ylo.t - tt, y.t <= yhi.t + tt))

    # concrete replay on the unmodified module ----------------------------------------------------
    def replay(self, cex):
        pu = loader.native("plot_utils")
        g = {k: Fraction(v) for k, v in cex["inputs"].items()}
        ob = cex["obligation"].split(":")[0]
        v, lo, hi = g["value"], g["lower"], g["upper"]

        def clamp(v, lo, hi):
            return hi if v > hi else lo if v < lo else v
        if ob == "checkLimits":
            res, flag = pu.checkLimits(v, lo, hi)
            exp = (clamp(v, lo, hi), v < lo or v > hi)
            got = (res, flag)
        elif ob == "checkLimitsTol":
            tol = g["tol"]
            got = pu.checkLimitsTol(v, lo, hi, tol)
            exp = (clamp(v, lo, hi), v < lo - tol or v > hi + tol)
        elif ob == "constrainLimits":
            got = pu.constrainLimits(v, lo, hi)
            exp = clamp(v, lo, hi)
        else:
            tol = g["tol"] if "tol" in g else Fraction(1, 10 ** 9)
            y, ylo, yhi = g["y"], g["ylower"], g["yupper"]
            if ob == "point_in_bounds_history":
                bounds, pt = [[0, 0], [10, 10]], [7, 5]
                for _ in range(2):
                    pu.point_in_bounds(pt, bounds, tol)
                bounds[0][0], bounds[0][1], bounds[1][0], bounds[1][1] = lo, ylo, hi, yhi
                pt[0], pt[1] = v, y
                got = pu.point_in_bounds(pt, bounds, tol)
            elif ob == "point_in_bounds":
                got = pu.point_in_bounds([v, y], [[lo, ylo], [hi, yhi]], tol)
            else:
                got = pu.point_in_bounds([float(v), float(y)], [[float(lo), float(ylo)], [float(hi), float(yhi)]])
                if got == (lo - tol <= v <= hi + tol and ylo - tol <= y <= yhi + tol):
                    got = pu.point_in_bounds([v, y], [[lo, ylo], [hi, yhi]], tol)
            exp = bool(lo - tol <= v <= hi + tol and ylo - tol <= y <= yhi + tol)
            tolf = (pu.checkLimitsTol(v, lo, hi, tol)[1], pu.checkLimitsTol(y, ylo, yhi, tol)[1])
            if got == exp and got != (not (tolf[0] or tolf[1])):
                return {"got": got, "checkLimitsTol_flags": tolf}
        if got != exp:
            return {"got": str(got), "expected": str(exp)}
        return None

    # translator validation -------------------------------------------------------------------------
    def validate(self, tier, seed):
        """Pinned-symbolic runs of the shim-loaded functions must agree with the native functions."""
        rnd = random.Random(seed)
        nat = loader.native("plot_utils")
        n = 0
        table = [(0.1, -0.5, 0.5), (-0.6, -0.5, 0.5), (0.6, -0.5, 0.5), (19, -19, 19), (-20, -19, 19), (5, 5, 5)]
        for _ in range(30):
            table.append(tuple(Fraction(rnd.randint(-50, 50), rnd.randint(1, 7)) for _ in range(3)))
        for (v, a, b) in table:
            lo, hi = min(a, b), max(a, b)
            tol = Fraction(rnd.randint(0, 10), 7)
            exp = {"cl": nat.checkLimits(v, lo, hi), "clt": nat.checkLimitsTol(v, lo, hi, tol),
                   "con": nat.constrainLimits(v, lo, hi),
                   "pib": nat.point_in_bounds([v, v / 2], [[lo, lo], [hi, hi]], tol)}
            got = {}

            def h(run):
                pu = load()
                sv, slo, shi, stol = (SymReal.of(Fraction(x)) for x in (v, lo, hi, tol))
                r, f = pu.checkLimits(sv, slo, shi)
                got["cl"] = (engine.model_value(z3.Model() if False else _m(run), zreal(r)), _tobool(f))
                r, f = pu.checkLimitsTol(sv, slo, shi, stol)
                got["clt"] = (engine.model_value(_m(run), zreal(r)), _tobool(f))
                got["con"] = engine.model_value(_m(run), zreal(pu.constrainLimits(sv, slo, shi)))
                got["pib"] = pu.point_in_bounds([sv, sv / 2], [[slo, slo], [shi, shi]], stol)
            ex = engine.Explorer(h, engine.Config(logic="QF_LRA"))
            st = ex.explore()
            assert st.paths == 1, "pinned run must follow exactly one path"
            e2 = {k: (tuple(Fraction(x) if not isinstance(x, bool) else x for x in val) if isinstance(val, tuple)
                      else (Fraction(val) if not isinstance(val, bool) else val)) for k, val in exp.items()}
            assert got == e2, "translator validation failed: %r vs %r" % (got, e2)
            n += 4
        return n


def _m(run):
    r, m = run.check_sat([])
    assert r == "sat"
    return m


def _tobool(f):
    assert isinstance(f, bool)
    return f


if __name__ == "__main__":
    main(Check())
