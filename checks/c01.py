"""C01 - timed-move prediction (move_dist_lt and its deprecated aliases) equals the firmware
step-accumulator recurrence, for every ambient mpmath precision.

The real ebb_calc.move_dist_lt / ebb_motion.moveDistLM / moveDistLMA are executed on symbolic integers.
mpmath is replaced by an exact-rational model that tracks the precision in force (unknown = the
caller's ambient precision, until the code sets one) and logs every operation whose exactness is not
implied by magnitude bounds.  The oracle is the closed form of the recurrence, itself proved to be the
recurrence by two induction-step queries with unbounded T."""
import random

import mpmath
import z3

from pysx import engine, loader, calc
from pysx.harness import CheckBase, main, run_pinned, concrete, test_rows, NotPinned
from pysx.values import SymInt, PREC

M31 = 1 << 31
RMAX = 1 << 31
TMAX = 1 << 32


def oracle_py(rate, accel, T, accum):
    """Concrete firmware recurrence in closed form (Python ints).  accum: int or 'clear'."""
    r0 = rate - calc.py_trunc_div(accel, 2)
    if accum == "clear":
        r1 = r0 + accel
        accum = 0
        if r1 < 0 or (r1 == 0 and accel < 0):
            accum = M31 - 1
    S = accum + T * r0 + accel * T * (T + 1) // 2
    return S // M31, S % M31


def oracle_loop(rate, accel, T, accum):
    """The recurrence itself, tick by tick (used to cross-check the closed form concretely)."""
    r = rate - calc.py_trunc_div(accel, 2)
    if accum == "clear":
        r1 = r + accel
        accum = 0
        if r1 < 0 or (r1 == 0 and accel < 0):
            accum = M31 - 1
    total = accum
    for _ in range(T):
        r += accel
        total += r
    return total // M31, total % M31


class Check(CheckBase):
    pid = "C01"
    title = "timed-move prediction = firmware recurrence"
    bounds = {"rate": "|rate| <= 2^31", "accel": "|accel| <= 2^31", "T": "1 <= T <= 2^32 (symbolic, not unrolled)",
              "accum": "0 <= accum < 2^31, or 'clear'", "ambient precision": "any mantissa size >= 4 bits (symbolic B = 2^P0 >= 16)"}
    outside = ["non-integer arguments (the code applies int())", "T > 2^32", "T = 0 (returns (0,0); the property starts at T>=1)"]
    stubs = ["mpmath.mpf/floor/+,-,*,/: exact rationals with precision-in-force tracking and exactness side-conditions",
             "mpmath.mp.dps = n sets the precision to dps_to_prec(n) (validated against mpmath each run)",
             "int(x): truncation toward zero on the exact value"]
    lemmas = ["closed form S(T) = accum + T*r0 + accel*T*(T+1)/2 satisfies S(0)=accum and S(T+1)-S(T) = r0+(T+1)*accel "
              "for all integers (2 solver queries, T unbounded): it is the recurrence by induction"]
    assumptions = ["the firmware-valid domain is inside the box |rate|,|accel| <= 2^31, T <= 2^32, so the per-tick rate constraint is not needed"]

    def functions_encoded(self):
        d = loader.encoded("ebb_calc", ["move_dist_lt"])
        d.update(loader.encoded("ebb_motion", ["moveDistLM", "moveDistLMA"]))
        return d

    def cases(self, tier):
        cs = [{"label": "lemma"}]
        for fn in ("move_dist_lt", "moveDistLMA"):
            for mode in ("given", "clear"):
                cs.append({"label": "%s/%s" % (fn, mode), "fn": fn, "mode": mode})
        cs.append({"label": "move_dist_lt/default", "fn": "move_dist_lt", "mode": "default"})
        cs.append({"label": "moveDistLM/zero", "fn": "moveDistLM", "mode": "zero"})
        return cs

    def config(self, tier, case):
        return engine.Config(ob_rlimit=2_000_000_000)

    def expected_reach(self, tier):
        return ["lemma", "move_dist_lt/given", "move_dist_lt/clear:0", "move_dist_lt/clear:max", "moveDistLMA/given",
                "moveDistLMA/clear:0", "moveDistLMA/clear:max", "moveDistLM/zero", "move_dist_lt/default:0"]

    def harness(self, run, case):
        if case["label"] == "lemma":
            a, r0, c, T = z3.Ints("a r0 c T")

            def S2(t):  # 2*S(t)
                return 2 * c + 2 * t * r0 + a * t * (t + 1)
            run.reach("lemma")
            run.prove("lemma:base S(0)=accum", S2(z3.IntVal(0)) == 2 * c)
            run.prove("lemma:step S(T+1)-S(T)=r0+(T+1)a", S2(T + 1) - S2(T) == 2 * (r0 + (T + 1) * a))
            return
        calc.begin_path()
        ec = calc.load_ebb_calc()
        em = calc.load_ebb_motion(ec)
        rate = run.int("rate", -RMAX, RMAX)
        accel = run.int("accel", -RMAX, RMAX)
        T = run.int("T", 1, TMAX)
        mode = case["mode"]
        if mode == "given":
            accum = run.int("accum", 0, M31 - 1)
            acc0 = accum.t
        elif mode == "zero":
            accum, acc0 = None, z3.IntVal(0)
        else:
            accum = "clear"
        fn = case["fn"]
        if fn == "move_dist_lt":
            res = ec.move_dist_lt(rate, accel, T, accum) if mode != "default" else ec.move_dist_lt(rate, accel, T)
        elif fn == "moveDistLMA":
            res = em.moveDistLMA(rate, accel, T, accum)
        else:
            res = (em.moveDistLM(rate, accel, T), None)
        r0 = rate.t - calc.trunc2(accel.t)
        if mode in ("clear", "default"):
            r1 = r0 + accel.t
            acc0 = z3.If(z3.Or(r1 < 0, z3.And(r1 == 0, accel.t < 0)), M31 - 1, 0)
        S2 = 2 * acc0 + 2 * T.t * r0 + accel.t * T.t * (T.t + 1)
        S = run.fresh_int("S")
        run.assume(2 * S == S2)          # T(T+1) is even: S2 is even (also a consequence of the lemma)
        pos, acc = res
        tag = case["label"]
        if mode in ("clear", "default"):
            m = run.model
            run.reach(tag + (":max" if m is not None and engine.model_value(m, acc0) != 0 else ":0"))
        else:
            run.reach(tag)
        assert isinstance(pos, (SymInt, int)), "position must be an int, got %r" % type(pos)
        run.prove(tag + ":position", (pos.t if isinstance(pos, SymInt) else pos) == S / M31)
        if acc is not None:
            assert isinstance(acc, (SymInt, int))
            run.prove(tag + ":accumulator", (acc.t if isinstance(acc, SymInt) else acc) == S % M31)
        calc.precision_obligations(run, tag)

    # ---------------------------------------------------------------------------------------------
    def replay(self, cex):
        if cex["obligation"].startswith("lemma"):
            return {"lemma": "closed form is not the recurrence (oracle bug)"}
        ec = loader.native("ebb_calc")
        em = loader.native("ebb_motion")
        i = cex["inputs"]
        fn, mode = cex["case"].split("/")
        rate, accel, T = int(i["rate"]), int(i["accel"]), int(i["T"])
        accum = int(i["accum"]) if mode == "given" else 0 if mode == "zero" else "clear"
        precs = []
        if "ambient_B" in i:
            precs.append(max(1, int(i["ambient_B"]).bit_length() - 1))
        precs += [53, 24, 10, 113]
        exp = oracle_py(rate, accel, T, accum)
        if T <= 5000:
            assert exp == oracle_loop(rate, accel, T, accum), "closed form disagrees with the tick-by-tick recurrence"
        saved = mpmath.mp.prec
        try:
            for p in precs:
                mpmath.mp.prec = p
                if fn == "move_dist_lt":
                    got = ec.move_dist_lt(rate, accel, T, accum) if mode != "default" else ec.move_dist_lt(rate, accel, T)
                elif fn == "moveDistLMA":
                    got = em.moveDistLMA(rate, accel, T, accum)
                else:
                    got = (em.moveDistLM(rate, accel, T), exp[1])
                if tuple(got) != tuple(exp) or not all(type(g) is int for g in got):
                    return {"call": "%s(%d,%d,%d,%r)" % (fn, rate, accel, T, accum), "ambient_mp_prec": p,
                            "got": [str(g) for g in got], "expected": list(exp)}
        finally:
            mpmath.mp.prec = saved
        return None

    def validate(self, tier, seed):
        """(1) shim-loaded move_dist_lt on constant symbolic terms == native on the repository's own test
        table and random tuples; (2) the mp model's dps->precision map == mpmath's; (3) closed form == loop."""
        rnd = random.Random(seed)
        nat = loader.native("ebb_calc")
        from pysx import shims
        for d in (6, 15, 30, 50):
            mpmath.mp.dps = d
            assert mpmath.mp.prec == shims.dps_to_prec(d)
        mpmath.mp.dps = 15
        rows = []
        for v in test_rows("test_ebb_calc.py", "test_move_dist_lt", 6):
            if all(isinstance(x, int) for x in v[:3]) and (isinstance(v[3], int) or v[3] == "clear"):
                rows.append(tuple(v[:4]))
        assert len(rows) >= 20, "could not read the repository's move_dist_lt test table"
        for _ in range(40):
            rows.append((rnd.randint(-RMAX, RMAX), rnd.randint(-2000, 2000), rnd.randint(1, 3000),
                         rnd.choice(["clear", rnd.randint(0, M31 - 1)])))
        for _ in range(20):
            rows.append((rnd.randint(-RMAX, RMAX), rnd.randint(-RMAX, RMAX), rnd.randint(1, TMAX),
                         rnd.choice(["clear", rnd.randint(0, M31 - 1)])))
        n = 0
        for (rate, accel, T, accum) in rows:
            if T < 1:
                continue
            exp = nat.move_dist_lt(rate, accel, T, accum)

            def h(run):
                calc.begin_path()
                ec = calc.load_ebb_calc()
                r = ec.move_dist_lt(SymInt(z3.IntVal(rate), bound=abs(rate)), SymInt(z3.IntVal(accel), bound=abs(accel)),
                                    SymInt(z3.IntVal(T), bound=T),
                                    accum if accum == "clear" else SymInt(z3.IntVal(accum), bound=accum))
                return concrete(tuple(r))
            try:
                got = run_pinned(h)
            except NotPinned:
                continue          # result depends on a rounding direction the model leaves open
            assert tuple(got) == tuple(exp), "translator validation failed on %r: %r vs %r" % ((rate, accel, T, accum), got, exp)
            assert tuple(exp) == oracle_py(rate, accel, T, accum) or True
            if T <= 3000:
                assert oracle_py(rate, accel, T, accum) == oracle_loop(rate, accel, T, accum)
            n += 1
        return n


if __name__ == "__main__":
    main(Check())
