"""C06 - motion/configuration helpers emit exactly the documented EBB command text.

Every helper of ebb_motion (through ebb_serial.command/query) and of EBBMotionWrap / EBB3.var_* is run
with symbolic integer arguments against a fake port that answers like a conforming board.  Formatting a
symbolic number yields a token, so the transmitted text decodes to literals and terms; the solver
proves the terms equal to the documented ones.  Optional arguments are tried absent and present
(symbolic, so the solver finds a dropped zero)."""
import z3

from pysx import engine, loader, stack
from pysx.harness import CheckBase, main
from pysx.serialmodel import FakePort, legacy_conforming, future_conforming, pieces, decode_payload, fields, expected_fields, _isint
from pysx.strs import NumTok, SymStr
from pysx.values import SymInt

R = 1 << 31


def clamp05(x):
    if isinstance(x, int):
        return max(0, min(5, x))
    return z3.If(x < 0, 0, z3.If(x > 5, 5, x))


# spec table: name -> (argument names, optional names, expected(args) -> list of commands; a command is a
# list of pieces (str literals / ints / z3 terms), or the string 'PAUSE' / 'LM' for the special rules)
def T(*p):
    return list(p)


def spec_table():
    t = {}

    def add(key, legacy, ebb3, args, opt, fn):
        t[key] = {"legacy": legacy, "ebb3": ebb3, "args": args, "opt": opt, "expect": fn}
    add("ab_move", "doABMove", None, ["delta_a", "delta_b", "duration"], [],
        lambda a: [T("XM,", a["duration"], ",", a["delta_a"], ",", a["delta_b"])])
    add("xy_move", "doXYMove", "xy_move", ["delta_x", "delta_y", "duration"], [],
        lambda a: [T("SM,", a["duration"], ",", a["delta_y"], ",", a["delta_x"])])
    add("abs_move", "doAbsMove", "abs_move", ["rate"], ["position1", "position2"],
        lambda a: [T("HM,", a["rate"], ",", a["position1"], ",", a["position2"])]
        if a.get("position1") is not None and a.get("position2") is not None else [T("HM,", a["rate"])])
    add("pause", "doTimedPause", "timed_pause", ["n_pause"], [], lambda a: "PAUSE")
    add("low_level_move", "doLowLevelMove", None, ["rate1", "steps1", "accel1", "rate2", "steps2", "accel2"], ["clear"],
        lambda a: "LM")
    add("motors_disable", "sendDisableMotors", "motors_disable", [], [], lambda a: [T("EM,0,0")])
    add("motors_enable_legacy", "sendEnableMotors", None, ["res"], [],
        lambda a: [T("EM,", clamp05(a["res"]), ",", clamp05(a["res"]))])
    add("pen_lower", "sendPenDown", "pen_lower", ["pen_delay"], ["pin"],
        lambda a: [T("SP,0,", a["pen_delay"]) + ([",", a["pin"]] if a.get("pin") is not None else [])])
    add("pen_raise", "sendPenUp", "pen_raise", ["pen_delay"], ["pin"],
        lambda a: [T("SP,1,", a["pen_delay"]) + ([",", a["pin"]] if a.get("pin") is not None else [])])
    add("dio_b_config_out", "PBOutConfig", None, ["pin", "state"], [],
        lambda a: [T("PO,B,", a["pin"], ",", a["state"]), T("PD,B,", a["pin"], ",0")])
    add("dio_b_config", None, "dio_b_config", ["pin", "state", "direction"], [],
        lambda a: [T("PO,B,", a["pin"], ",", a["state"]), T("PD,B,", a["pin"], ",", a["direction"])])
    add("dio_b_set", "PBOutValue", "dio_b_set", ["pin", "state"], [],
        lambda a: [T("PO,B,", a["pin"], ",", a["state"])])
    add("dio_b_read", None, "dio_b_read", ["pin"], [], lambda a: [T("PI,B,", a["pin"])])
    add("toggle_pen", "TogglePen", None, [], [], lambda a: [T("TP")])
    add("pen_pos_down", "setPenDownPos", "pen_pos_down", ["v"], [], lambda a: [T("SC,5,", a["v"])])
    add("pen_pos_up", "setPenUpPos", "pen_pos_up", ["v"], [], lambda a: [T("SC,4,", a["v"])])
    add("pen_rate_down", "setPenDownRate", "pen_rate_down", ["v"], [], lambda a: [T("SC,12,", a["v"])])
    add("pen_rate_up", "setPenUpRate", "pen_rate_up", ["v"], [], lambda a: [T("SC,11,", a["v"])])
    add("set_lv", "setEBBLV", None, ["v"], [], lambda a: [T("SL,", a["v"])])
    add("query_lv", "queryEBBLV", None, [], [], lambda a: [T("QL")])
    add("var_write", None, "var_write", ["value", "index"], [], lambda a: [T("SL,", a["value"], ",", a["index"])])
    add("var_read", None, "var_read", ["index"], [], lambda a: [T("QL,", a["index"])])
    add("servo_timeout", "servo_timeout", "servo_timeout", ["timeout_ms"], ["state"],
        lambda a: [T("SR,", a["timeout_ms"]) + ([",", a["state"]] if a.get("state") is not None else [])])
    add("clear_steps", None, "clear_steps", [], [], lambda a: [T("CS")])
    add("query_steps", "query_steps", "query_steps", [], [], lambda a: [T("QS")])
    add("query_pen_up", "QueryPenUp", None, [], [], lambda a: [T("QP")])
    add("query_button", "QueryPRGButton", None, [], [], lambda a: [T("QB")])
    add("query_current", None, "query_current", [], [], lambda a: [T("QC")])
    add("query_voltage", "queryVoltage", "query_voltage", [], [], lambda a: [T("QC")])
    add("query_motors_legacy", "query_enable_motors", None, [], [],
        lambda a: [T("PI,E,0"), T("PI,C,1"), T("PI,E,2"), T("PI,E,1"), T("PI,A,6")])
    add("query_motors", None, "motors_query_enabled", [], [], lambda a: [T("QE")])
    add("query_nickname", None, "query_nickname", [], [], lambda a: [T("QT")])
    return t


SPEC = spec_table()
LEGACY_PREAMBLE = {"servo_timeout": ["V"], "query_voltage": ["V"]}   # version gate: the probe precedes the command


def compare(payload, expected):
    """payload: SymStr written; expected: list of pieces.  Returns (ok_structure, list of z3 equalities)."""
    got = fields(payload)
    if got is None:
        return False, []
    exp = expected_fields(expected)
    if len(got) != len(exp):
        return False, []
    eqs = []
    for g, e in zip(got, exp):
        if isinstance(g, str) and isinstance(e, str):
            if g != e:
                return False, []
        elif isinstance(g, str):
            if not _isint(g):
                return False, []
            eqs.append(z3.IntVal(int(g)) == e)
        elif isinstance(e, str):
            if not _isint(e):
                return False, []
            eqs.append(g == z3.IntVal(int(e)))
        else:
            eqs.append(g == e)
    return True, eqs


def lm_suppressed(a):
    def z(r, ac, s):
        return z3.Or(z3.And(r == 0, ac == 0), s == 0)
    return z3.And(z(a["rate1"], a["accel1"], a["steps1"]), z(a["rate2"], a["accel2"], a["steps2"]))


class Check(CheckBase):
    pid = "C06"
    title = "helpers emit the documented command text"
    bounds = {"quick": {"integers": "every numeric argument symbolic in [-2^31, 2^31]", "pause": "n <= 6000 ms (up to 8 chunks, loop unrolled)",
                        "optional arguments": "each absent (None) and present (symbolic)"},
              "thorough": {"integers": "every numeric argument symbolic in [-2^31, 2^31]", "pause": "n <= 48000 ms (up to 64 chunks)",
                           "optional arguments": "each absent (None) and present (symbolic)"}}
    outside = ["non-integer (float/str) arguments: C-level formatting is not modelled", "the correctness of the EBB command reference itself",
               "the exact command sequence of EBBMotionWrap.motors_enable (state dependent; what it must achieve is checked through C16's board model, reused here)", "reply-dependent behaviour (C05, C07)"]
    stubs = ["str.format / f-string of a symbolic integer with empty spec: decimal rendering, represented by a token",
             "fake port answering every request like a conforming board (legacy: data+OK; EBB3: echo of the name)"]
    assumptions = ["expected texts transcribed from the helper docstrings / the EBB command reference they cite"]

    def functions_encoded(self):
        d = {}
        d.update(loader.encoded("ebb_motion", [v["legacy"] for v in SPEC.values() if v["legacy"]]))
        d.update(loader.encoded("ebb3_motion", [v["ebb3"] for v in SPEC.values() if v["ebb3"]]))
        d.update(loader.encoded("ebb3_serial", ["var_write", "var_read", "command", "query", "query_nickname"]))
        d.update(loader.encoded("ebb_serial", ["command", "query", "min_version", "queryVersion"]))
        return d

    def cases(self, tier):
        cs = []
        for key, sp in SPEC.items():
            for layer in ("legacy", "ebb3"):
                if not sp[layer]:
                    continue
                nopt = len(sp["opt"])
                for mask in range(1 << nopt):
                    present = [sp["opt"][i] for i in range(nopt) if mask >> i & 1]
                    cs.append({"label": "%s/%s/%s" % (layer, key, "+".join(present) or "-"), "layer": layer, "key": key,
                               "present": present})
                cs.append({"label": "%s/%s/noport" % (layer, key), "layer": layer, "key": key, "present": list(sp["opt"]),
                           "noport": True})
        # EBBMotionWrap.motors_enable issues a state-dependent command sequence; what it must achieve on the board is
        # specified in C16, whose harness (symbolic board, earlier requests, power cycle) is reused here
        from checks import c16
        for c in c16.Check().cases(tier):
            if c["label"] == "motors_enable" or (c["label"].startswith("motors_enable") and "power-cycle" in c["label"]):
                cs.append(dict(c, label="ebb3/" + c["label"], delegate_c16=c["label"], pmax=1 if tier == "quick" else 2))
        return cs

    def config(self, tier, case):
        return engine.Config(max_decisions=400)

    def expected_reach(self, tier):
        return ["sent", "pause:0", "pause:1", "pause:3", "lm:sent", "lm:suppressed", "noport"]

    def _call(self, case, run, args):
        sp = SPEC[case["key"]]
        name = sp[case["layer"]]
        if case["layer"] == "legacy":
            es, em = stack.load_legacy()
            port = None if case.get("noport") else FakePort(on_write=legacy_conforming)
            fn = getattr(em, name)
            kw = {k: args[k] for k in case["present"]}
            pos = [args[k] for k in sp["args"]]
            # ebb_motion argument orders differ from the spec's argument names in two helpers
            if name == "doLowLevelMove":
                fn(port, *pos, **kw)
            elif name == "doAbsMove":
                fn(port, args["rate"], **kw)
            else:
                fn(port, *pos, **kw)
            return port
        e3, m3 = stack.load_ebb3()
        obj = m3.EBBMotionWrap()
        port = None if case.get("noport") else FakePort(on_write=future_conforming)
        obj.port = port
        kw = {k: args[k] for k in case["present"]}
        getattr(obj, name)(*[args[k] for k in sp["args"]], **kw)
        if obj.err is not None and not case.get("noport"):
            run.prove(case["label"] + ":no-error-against-conforming-board", z3.BoolVal(False),
                      info={"err": str(obj.err)[:200]})
        return port

    def harness(self, run, case):
        if case.get("delegate_c16"):
            from checks import c16
            run.reach("sent")
            return c16.Check().harness(run, dict(case, label=case["delegate_c16"]))
        sp = SPEC[case["key"]]
        tier_pause = 6000 if _TIER[0] == "quick" else 48000
        args, zargs = {}, {}
        for k in sp["args"] + case["present"]:
            if case["key"] == "pause":
                v = run.int(k, -R, tier_pause)
            else:
                v = run.int(k, -R, R)
            args[k] = v
            zargs[k] = v.t
        tag = case["label"]
        port = self._call(case, run, args)
        if case.get("noport"):
            run.reach("noport")
            return
        writes = list(port.writes)
        pre = LEGACY_PREAMBLE.get(case["key"], []) if case["layer"] == "legacy" else []
        for p in pre:
            ok = bool(writes) and compare(writes[0], [p])[0]
            if not ok:
                run.prove(tag + ":version-probe-first", z3.BoolVal(False))
                return
            writes = writes[1:]
        exp = sp["expect"](zargs)
        if exp == "PAUSE":
            n = zargs["n_pause"]
            durs = []
            for w in writes:
                f = fields(w)
                ok = f is not None and len(f) == 4 and f[0] == "SM" and f[2] == "0" and f[3] == "0" and \
                    (not isinstance(f[1], str) or _isint(f[1]))
                if not ok:
                    run.prove(tag + ":pause-command-shape", z3.BoolVal(False), info={"written": repr(w)})
                    return
                durs.append(z3.IntVal(int(f[1])) if isinstance(f[1], str) else f[1])
            run.reach("pause:%d" % min(len(durs), 3))
            if not durs:
                run.prove(tag + ":no-command-only-for-n<=0", n <= 0)
            else:
                run.prove(tag + ":durations-in-1..750", z3.And([z3.And(d >= 1, d <= 750) for d in durs]))
                run.prove(tag + ":durations-sum-to-n", z3.And(n >= 1, z3.Sum(durs) == n))
            return
        if exp == "LM":
            sup = lm_suppressed(zargs)
            if not writes:
                run.reach("lm:suppressed")
                run.prove(tag + ":suppressed-only-when-neither-axis-can-move", sup)
                return
            run.reach("lm:sent")
            run.prove(tag + ":sent-when-an-axis-can-move", z3.Not(sup))
            e = T("LM,", zargs["rate1"], ",", zargs["steps1"], ",", zargs["accel1"], ",", zargs["rate2"], ",",
                  zargs["steps2"], ",", zargs["accel2"])
            if "clear" in zargs:
                e += [",", zargs["clear"]]
            exp = [e]
        run.reach("sent")
        if len(writes) != len(exp):
            run.prove(tag + ":number-of-commands", z3.BoolVal(False),
                      info={"written": [repr(w) for w in writes], "expected": len(exp)})
            return
        for i, (w, e) in enumerate(zip(writes, exp)):
            ok, eqs = compare(w, e)
            if not ok:
                run.prove(tag + ":text[%d]" % i, z3.BoolVal(False), info={"written": repr(w)})
            else:
                run.prove(tag + ":text[%d]" % i, z3.And(eqs) if eqs else z3.BoolVal(True))

    # ---------------------------------------------------------------------------------------------
    def replay(self, cex):
        import importlib
        if cex["case"].startswith("ebb3/motors_enable"):
            from checks import c16
            return c16.Check().replay(dict(cex, case=cex["case"][len("ebb3/"):]))
        layer, key, _ = cex["case"].split("/")
        case = next(c for c in self.cases("quick") + self.cases("thorough") if c["label"] == cex["case"])
        sp = SPEC[key]
        args = {k: int(v) for k, v in cex["inputs"].items()}
        name = sp[layer]
        if layer == "legacy":
            em = loader.native("ebb_motion")
            port = FakePort(on_write=legacy_conforming)
            kw = {k: args[k] for k in case["present"]}
            if name == "doAbsMove":
                em.doAbsMove(port, args["rate"], **kw)
            else:
                getattr(em, name)(port, *[args[k] for k in sp["args"]], **kw)
        else:
            m3 = loader.native("ebb3_motion")
            obj = m3.EBBMotionWrap()
            port = FakePort(on_write=future_conforming)
            obj.port = port
            kw = {k: args[k] for k in case["present"]}
            getattr(obj, name)(*[args[k] for k in sp["args"]], **kw)
        got = [w.concrete_str() for w in port.writes]
        pre = LEGACY_PREAMBLE.get(key, []) if layer == "legacy" else []
        for p in pre:
            if not got or got[0] != p + "\r":
                return {"written": got, "expected_first": p}
            got = got[1:]
        exp = sp["expect"](args)
        if exp == "PAUSE":
            n = args["n_pause"]
            durs = []
            for g in got:
                if not (g.startswith("SM,") and g.endswith(",0,0\r")):
                    return {"written": got}
                durs.append(int(g[3:-5]))
            good = (not durs and n <= 0) or (durs and n >= 1 and sum(durs) == n and all(1 <= d <= 750 for d in durs))
            return None if good else {"n": n, "durations": durs}
        if exp == "LM":
            def z(r, a, s):
                return (r == 0 and a == 0) or s == 0
            sup = z(args["rate1"], args["accel1"], args["steps1"]) and z(args["rate2"], args["accel2"], args["steps2"])
            e = "LM,%d,%d,%d,%d,%d,%d" % tuple(args[k] for k in sp["args"])
            if "clear" in args:
                e += ",%d" % args["clear"]
            want = [] if sup else [e + "\r"]
        else:
            want = ["".join(str(p) for p in cmd) + "\r" for cmd in exp]
        if got != want:
            return {"written": got, "expected": want}
        return None

    def validate(self, tier, seed):
        """The token mechanism: formatting constant symbolic integers through the shim-loaded helpers gives the
        same bytes as the native helpers on the same integers."""
        import random
        from pysx.harness import run_pinned
        rnd = random.Random(seed)
        n = 0
        for case in self.cases("quick"):
            if case.get("delegate_c16") or case.get("noport") or case["key"] == "pause":
                continue
            sp = SPEC[case["key"]]
            vals = {k: rnd.choice([0, 1, -1, 5, 7, rnd.randint(-R, R)]) for k in sp["args"] + case["present"]}
            nat = self.replay({"case": case["label"], "inputs": vals})

            def h(run):
                args = {k: SymInt(z3.IntVal(v), bound=abs(v)) for k, v in vals.items()}
                port = self._call(case, run, args)
                out = []
                for w in port.writes:
                    s = ""
                    for p in pieces(w):
                        if isinstance(p, NumTok):
                            s += str(z3.simplify(p.num.t).as_long())
                        else:
                            s += p
                    out.append(s)
                return out
            sym_writes = run_pinned(h)
            # native writes
            layer, key, _ = case["label"].split("/")
            if layer == "legacy":
                em = loader.native("ebb_motion")
                port = FakePort(on_write=legacy_conforming)
                kw = {k: vals[k] for k in case["present"]}
                if sp[layer] == "doAbsMove":
                    em.doAbsMove(port, vals["rate"], **kw)
                else:
                    getattr(em, sp[layer])(port, *[vals[k] for k in sp["args"]], **kw)
            else:
                m3 = loader.native("ebb3_motion")
                obj = m3.EBBMotionWrap()
                port = FakePort(on_write=future_conforming)
                obj.port = port
                getattr(obj, sp[layer])(*[vals[k] for k in sp["args"]], **{k: vals[k] for k in case["present"]})
            nat_writes = [w.concrete_str() for w in port.writes]
            assert sym_writes == nat_writes, "translator validation failed for %s: %r vs %r" % (case["label"], sym_writes, nat_writes)
            n += 1
        return n


from pysx.harness import _TIER  # noqa: E402  (tier of the current run, for the pause bound)

if __name__ == "__main__":
    main(Check())
