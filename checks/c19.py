"""C19 - port discovery picks only EiBotBoards, in enumeration order, and finds by name.

The port enumerator is replaced by a stub returning descriptor tuples of symbolic strings built from
templates seen on Linux/macOS/Windows (kinds enumerated per port; names, serial tags and port digits
symbolic).  The eight discovery functions of both layers are executed on them; first-match,
listing, naming and lookup results are compared with a restated specification.  Lookup names are the
names the library itself reports, the serial tag or the port name, with a symbolic case flip per
character."""
import itertools

import z3

from pysx import engine, loader, stack
from pysx.harness import CheckBase, main, run_pinned
from pysx.strs import SymStr, zor, zand, ch_eq
from pysx.values import SymBool, mkbool

KINDS = ["linux-named", "linux-unnamed", "win-ser", "win-snr", "win-unnamed", "foreign"]
EBB_KINDS = KINDS[:5]
NAME_ALPHA = "letters (both cases), digits, space, underscore, dot, plus, minus"
VIDPID = "USB VID:PID=04D8:FD92"


def name_char(run, nm):
    c = run.fresh_int(nm)
    run.inputs[nm] = c
    run._add(z3.Or(z3.And(c >= 65, c <= 90), z3.And(c >= 97, c <= 122), z3.And(c >= 48, c <= 57), c == 32, c == 95, c == 46, c == 43, c == 45))
    return c


def digit(run, nm):
    c = run.fresh_int(nm)
    run.inputs[nm] = c
    run._add(z3.And(c >= 48, c <= 57))
    return c


def S(x):
    return x if isinstance(x, SymStr) else SymStr(tuple(x))


def build_port(run, i, kind, nlen):
    d = digit(run, "port%d_digit" % i)
    name = SymStr([name_char(run, "port%d_name%d" % (i, k)) for k in range(nlen)])
    # names/tags do not start or end with a blank (the firmware trims nicknames)
    run._add(z3.And(name.e[0] != 32, name.e[-1] != 32))
    if kind == "linux-named":
        return (S("/dev/ttyACM") + SymStr([d]), S("EiBotBoard,") + name, S(VIDPID + " SER=") + name + " LOCATION=1-1"), name
    if kind == "linux-unnamed":
        return (S("/dev/ttyACM") + SymStr([d]), S("EiBotBoard"), S(VIDPID + " LOCATION=1-1")), None
    if kind == "win-ser":
        return (S("COM") + SymStr([d]), S("USB Serial Device (COM") + SymStr([d]) + ")", S(VIDPID + " SER=") + name + " LOCATION=1-1"), name
    if kind == "win-snr":
        return (S("COM") + SymStr([d]), S("USB Serial Device (COM") + SymStr([d]) + ")", S(VIDPID + " SNR=") + name), name
    if kind == "win-unnamed":
        return (S("COM") + SymStr([d]), S("USB Serial Device (COM") + SymStr([d]) + ")", S(VIDPID + " LOCATION=1-1")), None
    return (S("/dev/ttyUSB") + SymStr([d]), S("Arduino Uno"), S("USB VID:PID=2341:0043 SER=") + name + " LOCATION=1-2"), name


def concrete_port(inputs, i, kind, nlen):
    d = chr(int(inputs["port%d_digit" % i]))
    name = "".join(chr(int(inputs["port%d_name%d" % (i, k)])) for k in range(nlen))
    if kind == "linux-named":
        return ("/dev/ttyACM" + d, "EiBotBoard," + name, VIDPID + " SER=" + name + " LOCATION=1-1"), name
    if kind == "linux-unnamed":
        return ("/dev/ttyACM" + d, "EiBotBoard", VIDPID + " LOCATION=1-1"), None
    if kind == "win-ser":
        return ("COM" + d, "USB Serial Device (COM" + d + ")", VIDPID + " SER=" + name + " LOCATION=1-1"), name
    if kind == "win-snr":
        return ("COM" + d, "USB Serial Device (COM" + d + ")", VIDPID + " SNR=" + name), name
    if kind == "win-unnamed":
        return ("COM" + d, "USB Serial Device (COM" + d + ")", VIDPID + " LOCATION=1-1"), None
    return ("/dev/ttyUSB" + d, "Arduino Uno", "USB VID:PID=2341:0043 SER=" + name + " LOCATION=1-2"), name


def desc_match(kind):
    return kind in ("linux-named", "linux-unnamed")


def id_match(kind):
    return kind in EBB_KINDS


def reported_name(kind, port, tag, layer):
    """what list_named_ebbs is documented to report for a board of this kind"""
    if kind == "linux-named":
        return tag
    if kind == "win-ser":
        return tag
    if kind == "win-snr" and layer == "legacy":
        return tag
    return port[0]


def swapcase_term(c):
    if isinstance(c, str):
        return c
    return z3.If(z3.And(c >= 65, c <= 90), c + 32, z3.If(z3.And(c >= 97, c <= 122), c - 32, c))


def flip_case(run, s, tag):
    out = []
    for k, c in enumerate(s.e):
        f = run.fresh_bool("%s_flip%d" % (tag, k))
        run.inputs["%s_flip%d" % (tag, k)] = f
        cc = c if not isinstance(c, str) else z3.IntVal(ord(c))
        out.append(z3.If(f, swapcase_term(cc), cc))
    return SymStr(out).simp()


def lower_eq_term(a, b):
    return a.lower().eq_term(b.lower())


def spec_matches(port, needle, layer):
    """restated lookup predicate (term): the needle identifies this port by serial tag, '(port)' text, nickname prefix or port-name prefix"""
    p0, p1, p2 = (x.lower() for x in port)
    n = needle.lower()
    parts = [p2.contains_term(S("ser=") + n), p1.contains_term(S("(") + n + ")"),
             SymStr(p1.e[11:]).startswith(n), p0.startswith(n)]
    if layer == "legacy":
        parts.append(p2.contains_term(S("snr=") + n))
    out = []
    for p in parts:
        out.append(p.t if isinstance(p, SymBool) else p)
    return zor(out)


def tb(x):
    return z3.BoolVal(x) if isinstance(x, bool) else (x.t if isinstance(x, SymBool) else x)


def same(a, b):
    """term: two str-like values are equal (None-aware)"""
    if a is None or b is None:
        return z3.BoolVal(a is None and b is None)
    return tb(S(a).eq_term(S(b)))


class Check(CheckBase):
    pid = "C19"
    title = "port discovery"
    bounds = {"quick": {"ports": "0..2 enumerated ports, each one of %d descriptor kinds (%s)" % (len(KINDS), ", ".join(KINDS)),
                        "names/tags": "3 symbolic characters over " + NAME_ALPHA + " (not starting/ending with a blank)", "port digit": "symbolic 0-9",
                        "lookup": "reported name / serial tag / port name of a solver-chosen board, with a symbolic case flip per character"},
              "thorough": {"ports": "0..3 ports (3 ports: EBB kinds in the last two positions)", "names/tags": "3 or 4 symbolic characters", "port digit": "symbolic",
                           "lookup": "as quick"}}
    outside = ["names shorter than 3 characters (an empty name matches everything)", "descriptor layouts other than the templates",
               "names containing the characters ( ) = , or starting/ending with blanks"]
    stubs = ["serial.tools.list_ports.comports -> list of 3-tuples of symbolic strings (or raising TypeError)"]

    def functions_encoded(self):
        d = loader.encoded("ebb_serial", ["findPort", "listEBBports", "list_named_ebbs", "find_named_ebb"])
        d.update(loader.encoded("ebb3_serial", ["find_first", "list_ebb_ports", "list_named_ebbs", "find_named"]))
        return d

    def cases(self, tier):
        cs = [{"label": "n0", "kinds": [], "nlen": 3}, {"label": "typeerror", "kinds": None, "nlen": 3}]
        nlens = (3,) if tier == "quick" else (3, 4)
        for nlen in nlens:
            for k in KINDS:
                cs.append({"label": "n1/%s/L%d" % (k, nlen), "kinds": [k], "nlen": nlen})
            for k1, k2 in itertools.product(KINDS, repeat=2):
                cs.append({"label": "n2/%s+%s/L%d" % (k1, k2, nlen), "kinds": [k1, k2], "nlen": nlen})
        if tier == "thorough":
            for k1 in KINDS:
                for k2, k3 in itertools.product(EBB_KINDS, repeat=2):
                    cs.append({"label": "n3/%s+%s+%s/L3" % (k1, k2, k3), "kinds": [k1, k2, k3], "nlen": 3})
        return cs

    def config(self, tier, case):
        return engine.Config(max_decisions=600)

    def expected_reach(self, tier):
        return ["first:desc", "first:id", "first:none", "list:some", "list:none", "lookup:reported-name", "lookup:tag", "lookup:port", "typeerror"]

    def _load(self, comports):
        es, _em = stack.load_legacy(extra_serial={"comports": comports})
        e3, _m3 = stack.load_ebb3(extra_serial={"comports": comports})
        return es, e3

    def harness(self, run, case):
        if case["kinds"] is None:
            def boom():
                raise TypeError("enumeration failed")
            es, e3 = self._load(boom)
            obj = e3.EBB3()
            obj.find_first()
            res = [es.findPort(), es.listEBBports(), es.list_named_ebbs(), es.find_named_ebb("abc"), obj.port_name, e3.list_ebb_ports(),
                   e3.list_named_ebbs(), e3.find_named("abc")]
            run.reach("typeerror")
            run.prove("enumerator-TypeError:all-None", z3.BoolVal(all(r is None for r in res)), info={"results": [repr(r) for r in res]})
            return
        kinds, nlen = case["kinds"], case["nlen"]
        built = [build_port(run, i, k, nlen) for i, k in enumerate(kinds)]
        ports = [b[0] for b in built]
        tags = [b[1] for b in built]
        holder = {"list": list(ports)}
        es, e3 = self._load(lambda: list(holder["list"]))
        # ---- first board ------------------------------------------------------------------------------------
        want_first = None
        for i, k in enumerate(kinds):
            if desc_match(k):
                want_first = i
                break
        if want_first is None:
            for i, k in enumerate(kinds):
                if id_match(k):
                    want_first = i
                    break
        run.reach("first:" + ("none" if want_first is None else "desc" if desc_match(kinds[want_first]) else "id"))
        got = es.findPort()
        run.prove("findPort:first-description-match-else-first-id-match", same(got, None if want_first is None else ports[want_first][0]))
        obj = e3.EBB3()
        if len(ports) >= 2:
            # an earlier discovery on the same object, when only the later ports were plugged in (no state may carry over)
            holder["list"] = list(ports[1:])
            obj.find_first()
            holder["list"] = list(ports)
        obj.find_first()
        run.prove("find_first:first-description-match-else-first-id-match", same(obj.port_name, None if want_first is None else ports[want_first][0]))
        # ---- listing ----------------------------------------------------------------------------------------
        ebb_idx = [i for i, k in enumerate(kinds) if id_match(k)]
        run.reach("list:some" if ebb_idx else "list:none")
        for layer, fn in (("legacy", es.listEBBports), ("ebb3", e3.list_ebb_ports)):
            lst = fn()
            if not ebb_idx:
                run.prove("%s:listing-None-when-no-board" % layer, z3.BoolVal(lst is None))
            else:
                ok = isinstance(lst, list) and len(lst) == len(ebb_idx) and all(lst[j] is ports[i] for j, i in enumerate(ebb_idx))
                run.prove("%s:listing-exactly-the-boards-in-order" % layer, z3.BoolVal(ok))
        # ---- names ------------------------------------------------------------------------------------------
        names = {}
        for layer, fn in (("legacy", es.list_named_ebbs), ("ebb3", e3.list_named_ebbs)):
            nl = fn()
            names[layer] = nl
            if not ebb_idx:
                run.prove("%s:names-None-when-no-board" % layer, z3.BoolVal(nl is None))
                continue
            ok = isinstance(nl, list) and len(nl) == len(ebb_idx)
            if not ok:
                run.prove("%s:one-name-per-board" % layer, z3.BoolVal(False), info={"names": repr(nl)[:200]})
                continue
            terms = [same(nl[j], reported_name(kinds[i], ports[i], tags[i], layer)) for j, i in enumerate(ebb_idx)]
            run.prove("%s:reported-names" % layer, z3.And(terms))
        if not ebb_idx:
            return
        # ---- lookup -----------------------------------------------------------------------------------------
        jj = run.choose(len(ebb_idx), "chosen_board")
        j = ebb_idx[jj]
        how = ["reported-name", "port"] + (["tag"] if kinds[j] in ("win-ser", "win-snr", "linux-named") else [])
        h = how[run.choose(len(how), "lookup_by")]
        run.reach("lookup:" + h)
        for layer, fn in (("legacy", es.find_named_ebb), ("ebb3", e3.find_named)):
            if h == "reported-name":
                nl = names[layer]
                if not (isinstance(nl, list) and len(nl) == len(ebb_idx)):
                    continue
                base = S(nl[jj])
            elif h == "tag":
                if kinds[j] == "win-snr" and layer == "ebb3":
                    continue            # the EBB3 layer does not understand the old SNR= tag (stated in the property)
                base = tags[j]
            else:
                base = ports[j][0]
            needle = flip_case(run, base, "needle_" + layer)
            try:
                res = fn(needle)
            except Exception as ex:
                run.prove("%s:lookup-raises-nothing" % layer, z3.BoolVal(False), info={"raised": repr(ex)[:160]})
                continue
            member = zor([tb(same(res, p[0])) for p in ports]) if res is not None else True
            run.prove("%s:lookup-result-is-a-listed-port" % layer, tb(member), info={"result": repr(res)})
            earlier = zor([spec_matches(ports[i], needle, layer) for i in range(j)])
            run.prove("%s:lookup-by-%s-finds-the-board" % (layer, h), z3.Or(tb(same(res, ports[j][0])), tb(earlier)),
                      info={"result": repr(res), "kinds": kinds, "board": j})
        # ---- layers agree (no SNR tag involved) -----------------------------------------------------------
        if "win-snr" not in kinds:
            nd = flip_case(run, ports[j][0] if h == "port" else S(names["ebb3"][jj]) if isinstance(names["ebb3"], list) else ports[j][0], "needle_both")
            try:
                run.prove("layers-agree:lookup", same(es.find_named_ebb(nd), e3.find_named(nd)))
            except Exception as ex:
                run.prove("layers-agree:lookup-raises-nothing", z3.BoolVal(False), info={"raised": repr(ex)[:160]})

    # ------------------------------------------------------------------------------------------------
    def replay(self, cex):
        es, e3 = loader.native("ebb_serial"), loader.native("ebb3_serial")
        case = next(c for c in self.cases("thorough") + self.cases("quick") if c["label"] == cex["case"])
        orig = (es.comports, e3.comports)
        i = cex["inputs"]
        try:
            if case["kinds"] is None:
                def boom():
                    raise TypeError("enumeration failed")
                es.comports = e3.comports = boom
                obj = e3.EBB3()
                obj.find_first()
                res = [es.findPort(), es.listEBBports(), es.list_named_ebbs(), es.find_named_ebb("abc"), obj.port_name, e3.list_ebb_ports(),
                       e3.list_named_ebbs(), e3.find_named("abc")]
                return None if all(r is None for r in res) else {"results": [repr(r) for r in res]}
            kinds, nlen = case["kinds"], case["nlen"]
            built = [concrete_port(i, k_i, k, nlen) for k_i, k in enumerate(kinds)]
            ports = [b[0] for b in built]
            tags = [b[1] for b in built]
            holder = {"list": list(ports)}
            es.comports = e3.comports = lambda: list(holder["list"])
            want_first = next((p for p, k in zip(ports, kinds) if desc_match(k)), None) or next((p for p, k in zip(ports, kinds) if id_match(k)), None)
            wf = want_first[0] if want_first else None
            obj = e3.EBB3()
            if len(ports) >= 2:
                holder["list"] = list(ports[1:])
                obj.find_first()
                holder["list"] = list(ports)
            obj.find_first()
            if es.findPort() != wf or obj.port_name != wf:
                return {"ports": ports, "findPort": es.findPort(), "find_first": obj.port_name, "expected": wf}
            ebb = [p for p, k in zip(ports, kinds) if id_match(k)]
            for layer, fn in (("legacy", es.listEBBports), ("ebb3", e3.list_ebb_ports)):
                if fn() != (ebb or None):
                    return {"ports": ports, layer + " listing": fn(), "expected": ebb or None}
            names = {}
            for layer, fn in (("legacy", es.list_named_ebbs), ("ebb3", e3.list_named_ebbs)):
                exp = [reported_name(k, p, t, layer) for p, k, t in zip(ports, kinds, tags) if id_match(k)] or None
                names[layer] = fn()
                if names[layer] != exp:
                    return {"ports": ports, layer + " names": names[layer], "expected": exp}
            if not ebb:
                return None
            ebb_idx = [x for x, k in enumerate(kinds) if id_match(k)]

            def cmatch(port, needle, layer):
                p0, p1, p2 = (x.lower() for x in port)
                n = needle.lower()
                r = ("ser=" + n) in p2 or ("(" + n + ")") in p1 or p1[11:].startswith(n) or p0.startswith(n)
                return r or (layer == "legacy" and ("snr=" + n) in p2)
            # try every board / lookup kind / the case flips of the model (and all-lower / all-upper)
            for jj, j in enumerate(ebb_idx):
                for h in ("reported-name", "tag", "port"):
                    for layer, fn in (("legacy", es.find_named_ebb), ("ebb3", e3.find_named)):
                        if h == "reported-name":
                            base = names[layer][jj]
                        elif h == "tag":
                            if tags[j] is None or kinds[j] not in ("win-ser", "win-snr", "linux-named") or (kinds[j] == "win-snr" and layer == "ebb3"):
                                continue
                            base = tags[j]
                        else:
                            base = ports[j][0]
                        flips = [[(i.get("needle_%s_flip%d" % (layer, k)) in (True, "True")) for k in range(len(base))],
                                 [False] * len(base), [True] * len(base)]
                        for fl in flips:
                            needle = "".join(c.swapcase() if f else c for c, f in zip(base, fl))
                            try:
                                res = fn(needle)
                            except Exception as ex:
                                return {"ports": ports, "lookup": needle, "layer": layer, "raised": repr(ex)}
                            if res is not None and res not in [p[0] for p in ports]:
                                return {"ports": ports, "lookup": needle, "layer": layer, "result": res, "problem": "not a listed port"}
                            if res != ports[j][0] and not any(cmatch(ports[x], needle, layer) for x in range(j)):
                                return {"ports": ports, "lookup": needle, "by": h, "layer": layer, "result": res, "expected": ports[j][0]}
                            if "win-snr" not in kinds and es.find_named_ebb(needle) != e3.find_named(needle):
                                return {"ports": ports, "lookup": needle, "legacy": es.find_named_ebb(needle), "ebb3": e3.find_named(needle)}
            return None
        finally:
            es.comports, e3.comports = orig

    def validate(self, tier, seed):
        """Concrete descriptor lists through the shim-loaded functions (pinned) and the native ones."""
        import random
        rnd = random.Random(seed)
        es_n, e3_n = loader.native("ebb_serial"), loader.native("ebb3_serial")
        n = 0
        orig = (es_n.comports, e3_n.comports)
        try:
            for _ in range(25):
                kinds = [rnd.choice(KINDS) for _ in range(rnd.randint(0, 3))]
                inputs = {}
                for i in range(len(kinds)):
                    inputs["port%d_digit" % i] = ord(rnd.choice("0123456789"))
                    for k in range(3):
                        inputs["port%d_name%d" % (i, k)] = ord(rnd.choice("abXY09_.+-"))
                ports = [concrete_port(inputs, i, k, 3)[0] for i, k in enumerate(kinds)]
                needle = rnd.choice(["abc", "COM3", "/dev/ttyACM1"] + [concrete_port(inputs, i, k, 3)[1] or "zzz" for i, k in enumerate(kinds)])
                es_n.comports = e3_n.comports = lambda: list(ports)
                o = e3_n.EBB3()
                o.find_first()
                exp = [es_n.findPort(), es_n.listEBBports(), es_n.list_named_ebbs(), es_n.find_named_ebb(needle), o.port_name,
                       e3_n.list_ebb_ports(), e3_n.list_named_ebbs(), e3_n.find_named(needle)]

                def h(run):
                    sp = [tuple(S(x) for x in p) for p in ports]
                    es, e3 = self._load(lambda: list(sp))
                    ob = e3.EBB3()
                    ob.find_first()
                    res = [es.findPort(), es.listEBBports(), es.list_named_ebbs(), es.find_named_ebb(S(needle)), ob.port_name,
                           e3.list_ebb_ports(), e3.list_named_ebbs(), e3.find_named(S(needle))]

                    def conc(x):
                        if isinstance(x, SymStr):
                            return x.concretize()
                        if isinstance(x, (list, tuple)):
                            return type(x)(conc(y) for y in x)
                        return x
                    return [conc(r) for r in res]
                got = run_pinned(h)
                assert got == exp, "translator validation failed on %r / %r:\n%r\n%r" % (ports, needle, got, exp)
                n += 1
        finally:
            es_n.comports, e3_n.comports = orig
        return n


if __name__ == "__main__":
    main(Check())
