"""C16 - board-state round trips through the EBB3 layer are faithful.

var_write / var_read / var_write_int32 / var_read_int32, write_nickname / query_nickname and
motors_enable / motors_query_enabled run through the real EBB3.command / EBB3.query against a
*simulated board* whose state is symbolic: RAM is a z3 array (arbitrary initial contents), the motor
state (mode, motor1, motor2, single-motor option) is arbitrary, the nickname is a symbolic string.  The
board tokenises what is written (literal text + tokens -> terms), updates its state with the
documented semantics and answers in EBB3 syntax; replies carry numbers as tokens, so what the library
parses back is again a term and the round trip is proved for all values at once."""
import z3

from pysx import engine, loader, stack
from pysx.harness import CheckBase, main, run_pinned
from pysx.serialmodel import FakePort, fields, literal_prefix, pieces
from pysx.strs import SymStr, SymBytes
from pysx.values import SymInt, SymBool

I32 = 1 << 31


class Board:
    """Documented semantics (trusted base, transcribed from the docstrings of motors_enable /
    motors_query_enabled / var_write / write_nickname and the EBB command reference they cite):
      SL,v,i   ram[i] := v                      QL,i  -> QL,<ram[i]>
      ST,text  nickname := text                 QT    -> QT,<nickname>
      CU,50,0  allow a single motor to be enabled
      EM,e1,e2 e1 in 1..5 sets the global microstep mode to e1; if only-one-motor is not allowed and either
               value is non-zero both motors are enabled; otherwise motor k is enabled iff e_k != 0
      QE       -> QE,<a>,<b> with a (b) = 2^(5-mode) if motor 1 (2) is enabled else 0"""

    def __init__(self, run):
        self.run = run
        self.ram = z3.Array("ram0", z3.IntSort(), z3.IntSort())
        self.ram0 = self.ram
        self.mode = run.int("board_mode", 1, 5).t
        self.m1 = run.bool("board_m1").t
        self.m2 = run.bool("board_m2").t
        self.single = run.bool("board_single_motor_allowed").t
        self.nick = None
        self.log = []
        self.bad = []

    def term(self, f):
        if isinstance(f, str):
            try:
                return z3.IntVal(int(f))
            except ValueError:
                return None
        return f

    def on_write(self, port, payload):
        lit = literal_prefix(payload)
        name = lit.split(",")[0].strip("\r")
        self.log.append(name)
        if name == "ST":
            body = SymStr(payload.e[3:])
            if not (len(body) and body.e[-1] == "\r"):
                self.bad.append("ST without CR")
            self.nick = SymStr(body.e[:-1])
            port.queue.append(b"ST\r\n")
            return
        if name == "QT":
            port.queue.append(SymBytes(SymStr(tuple("QT,")) + (self.nick if self.nick is not None else SymStr(())) + "\r\n"))
            return
        f = fields(payload)
        if f is None:
            self.bad.append("unparsable: %r" % (payload,))
            port.queue.append(b"!8 Err: syntax\r\n")
            return
        args = [self.term(x) for x in f[1:]]
        if any(a is None for a in args):
            self.bad.append("non-numeric argument: %r" % (payload,))
            port.queue.append(b"!8 Err: syntax\r\n")
            return
        if name == "SL" and len(args) == 2:
            self.ram = z3.Store(self.ram, args[1], args[0])
            self.sl_values = getattr(self, "sl_values", []) + [(args[1], args[0])]
            port.queue.append(b"SL\r\n")
        elif name == "QL" and len(args) == 1:
            v = SymInt(z3.Select(self.ram, args[0]), bound=255)
            self.run.assume(z3.And(v.t >= 0, v.t <= 255))     # RAM slots hold bytes: whatever is read back is in 0..255
            port.queue.append(("QL,%s\r\n" % format(v, "")).encode("ascii"))
        elif name == "CU" and len(args) == 2:
            is50 = z3.And(args[0] == 50, args[1] == 0)
            self.single = z3.Or(self.single, is50)
            port.queue.append(b"CU\r\n")
        elif name == "EM" and len(args) == 2:
            e1, e2 = args
            self.em_args = getattr(self, "em_args", []) + [(e1, e2)]
            valid = z3.And(e1 >= 0, e1 <= 5, e2 >= 0, e2 <= 5)
            if self.run.branch(z3.Not(valid)):
                port.queue.append(b"!8 Err: parameter outside range\r\n")
                return
            self.mode = z3.If(e1 != 0, e1, self.mode)
            both = z3.And(z3.Not(self.single), z3.Or(e1 != 0, e2 != 0))
            self.m1 = z3.If(both, True, e1 != 0)
            self.m2 = z3.If(both, True, e2 != 0)
            port.queue.append(b"EM\r\n")
        elif name == "QE" and not args:
            code = 1
            scale = z3.If(self.mode == 1, 16, z3.If(self.mode == 2, 8, z3.If(self.mode == 3, 4, z3.If(self.mode == 4, 2, 1))))
            a = SymInt(z3.If(self.m1, scale, 0), bound=16)
            b = SymInt(z3.If(self.m2, scale, 0), bound=16)
            port.queue.append(("QE,%s,%s\r\n" % (format(a, ""), format(b, ""))).encode("ascii"))
        else:
            port.queue.append((name + "\r\n").encode("ascii"))


def clamp05(x):
    return z3.If(x < 0, 0, z3.If(x > 5, 5, x))


class Check(CheckBase):
    pid = "C16"
    title = "board-state round trips"
    bounds = {"value": "all signed 32-bit values (symbolic)", "slot": "0..28 (symbolic)", "RAM": "arbitrary initial contents (z3 array)",
              "motor request": "r1, r2 symbolic in [-2^31, 2^31]; also after one earlier request (0..2; thorough 0..5) on the same object followed by an arbitrary change of the board state, and (thorough) after two earlier requests (0..2)", "prior board state": "mode 1..5, motor 1/2 on/off, single-motor option on/off: all symbolic",
              "nickname": "0..4 symbolic characters, each any printable ASCII character (32..126)"}
    outside = ["the real firmware (the board model above is the trusted base)", "values outside int32 (OverflowError in Python)",
               "nicknames containing the text 'Err:' (reserved for device error replies by the framing rule of C05: write_nickname('Err:') succeeds but the name cannot be read back), nicknames longer than 4 characters or with control characters",
               "sequences of operations: each operation is proved from an arbitrary prior board state, so sequences follow by induction"]
    stubs = ["int.to_bytes / int.from_bytes as div/mod terms honouring byteorder/signed (differentially tested each run)",
             "simulated board (class Board)", "decimal rendering of integers: tokens"]

    def functions_encoded(self):
        d = loader.encoded("ebb3_serial", ["var_write", "var_read", "var_write_int32", "var_read_int32", "write_nickname",
                                            "query_nickname", "command", "query"])
        d.update(loader.encoded("ebb3_motion", ["motors_enable", "motors_query_enabled"]))
        return d

    def cases(self, tier):
        cs = [{"label": "int32"}, {"label": "int32/after-two-int32-writes", "split_depth": 5}, {"label": "int32/after-int32-and-byte-write", "split_depth": 5}, {"label": "var8"}, {"label": "motors_enable"}, {"label": "motors_query"},
              {"label": "motors_enable/after-earlier-requests-and-power-cycle", "split_depth": 6, "pmax": 2 if tier == "quick" else 5}]
        if tier == "thorough":
            cs.append({"label": "motors_enable/after-earlier-requests", "split_depth": 6, "pmax": 2})
        for n in range(0, 5):
            cs.append({"label": "nickname/%d" % n, "n": n})
        return cs

    def config(self, tier, case):
        return engine.Config(max_decisions=300)

    def expected_reach(self, tier):
        return ["int32", "var8", "motors_enable:both", "motors_enable:only1", "motors_enable:only2", "motors_enable:none", "motors_query",
                "nickname"]

    def harness(self, run, case):
        e3, m3 = stack.load_ebb3()
        obj = m3.EBBMotionWrap()
        board = Board(run)
        port = FakePort(on_write=board.on_write, sym=False)
        obj.port = port
        label = case["label"]
        try:
            self.body(run, case, obj, board, port, label)
        except Exception as ex:
            run.prove(label + ":no-exception", z3.BoolVal(False), info={"raised": repr(ex)[:200]})

    def body(self, run, case, obj, board, port, label):
        if label.startswith("int32/after-"):
            # history on one object: two earlier writes at arbitrary (possibly overlapping) slots, then the step proper
            v0 = run.int("value0", -I32, I32 - 1)
            s0 = run.int("slot0", 0, 28)
            obj.var_write_int32(v0, s0)
            if label.endswith("byte-write"):
                v1 = run.int("value1", 0, 255)
                s1 = run.int("slot1", 0, 31)
                obj.var_write(v1, s1)
            else:
                v1 = run.int("value1", -I32, I32 - 1)
                s1 = run.int("slot1", 0, 28)
                obj.var_write_int32(v1, s1)
            if obj.err is not None or board.bad:
                run.prove("int32:history:earlier-writes-succeed", z3.BoolVal(False), info={"err": str(obj.err)[:200], "bad": board.bad})
                return
            board.ram0 = board.ram
            label = "int32"
        if label == "int32":
            v = run.int("value", -I32, I32 - 1)
            s = run.int("slot", 0, 28)
            ok = obj.var_write_int32(v, s)
            run.reach("int32")
            run.prove("int32:write-succeeds", z3.BoolVal(ok is True and obj.err is None and not board.bad), info={"err": str(obj.err)[:200], "bad": board.bad})
            ram1 = board.ram
            u = v.t % (1 << 32)
            stored = [z3.Select(ram1, s.t + k) for k in range(4)]
            run.prove("int32:four-bytes-0..255", z3.And([z3.And(b >= 0, b <= 255) for b in stored]))
            run.prove("int32:big-endian-in-consecutive-slots",
                      stored[0] * (1 << 24) + stored[1] * (1 << 16) + stored[2] * (1 << 8) + stored[3] == u)
            j = run.fresh_int("j")
            run.prove("int32:other-slots-unchanged", z3.Or(z3.And(j >= s.t, j <= s.t + 3), z3.Select(ram1, j) == z3.Select(board.ram0, j)))
            back = obj.var_read_int32(s)
            run.prove("int32:read-back-equals-written", (back.t if isinstance(back, SymInt) else z3.IntVal(-1 if back is None else back)) == v.t
                      if isinstance(back, (SymInt, int)) and not isinstance(back, bool) else z3.BoolVal(False), info={"read": repr(back)[:80]})
            run.prove("int32:no-error", z3.BoolVal(obj.err is None))
            return
        if label == "var8":
            v = run.int("value", 0, 255)
            s = run.int("slot", 0, 31)
            ok = obj.var_write(v, s)
            back = obj.var_read(s)
            run.reach("var8")
            run.prove("var8:write-succeeds", z3.BoolVal(ok is True and obj.err is None and not board.bad))
            run.prove("var8:read-back", (back.t == v.t) if isinstance(back, SymInt) else z3.BoolVal(False), info={"read": repr(back)[:80]})
            return
        if label == "motors_query":
            res = obj.motors_query_enabled()
            run.reach("motors_query")
            ok = isinstance(res, tuple) and len(res) == 2
            run.prove("motors_query:returns-pair", z3.BoolVal(ok))
            if ok:
                a, b = (z3.IntVal(x) if isinstance(x, int) else x.t for x in res)
                run.prove("motors_query:decodes-mode-and-enables",
                          z3.And(a == z3.If(board.m1, board.mode, 0), b == z3.If(board.m2, board.mode, 0)))
            return
        if label.startswith("motors_enable"):
            label = "motors_enable"
            r1 = run.int("r1", -I32, I32)
            r2 = run.int("r2", -I32, I32)
            if "after-earlier" in case["label"]:
                # two earlier requests on the same object (any resolutions 0..5): whatever the object remembers must
                # stay consistent with the board
                cyc = "power-cycle" in case["label"]
                for k in ((1,) if cyc else (1, 2)):
                    p1, p2 = run.int("prior%d_r1" % k, 0, case.get("pmax", 2)), run.int("prior%d_r2" % k, 0, case.get("pmax", 2))
                    obj.motors_enable(p1, p2)
                if obj.err is not None or board.bad:
                    run.prove("motors_enable:earlier-requests-succeed", z3.BoolVal(False), info={"err": str(obj.err)[:200], "bad": board.bad})
                    return
                if cyc:
                    # the board is power-cycled / re-flashed / driven by another host in between: any motor state again
                    board.mode = run.int("board2_mode", 1, 5).t
                    board.m1 = run.bool("board2_m1").t
                    board.m2 = run.bool("board2_m2").t
                    board.single = run.bool("board2_single_motor_allowed").t
            mode0 = board.mode
            obj.motors_enable(r1, r2)
            c1, c2 = clamp05(r1.t), clamp05(r2.t)
            m = run.model
            k1 = engine.model_value(m, c1) if m is not None else 0
            k2 = engine.model_value(m, c2) if m is not None else 0
            run.reach("motors_enable:" + ("both" if k1 and k2 else "only1" if k1 else "only2" if k2 else "none"))
            run.prove("motors_enable:no-error-against-conforming-board", z3.BoolVal(obj.err is None and not board.bad),
                      info={"err": str(obj.err)[:200], "bad": board.bad})
            run.prove("motors_enable:motor1-enabled-iff-requested", board.m1 == (c1 != 0))
            run.prove("motors_enable:motor2-enabled-iff-requested", board.m2 == (c2 != 0))
            want = z3.If(c1 != 0, c1, c2)
            run.prove("motors_enable:global-mode-is-requested-resolution", z3.Implies(z3.Or(c1 != 0, c2 != 0), board.mode == want))
            res = obj.motors_query_enabled()
            ok = isinstance(res, tuple) and len(res) == 2
            if ok:
                a, b = (z3.IntVal(x) if isinstance(x, int) else x.t for x in res)
                run.prove("motors_enable:reported-state", z3.And(a == z3.If(c1 != 0, want, 0), b == z3.If(c2 != 0, want, 0)))
            else:
                run.prove("motors_enable:reported-state", z3.BoolVal(False), info={"query": repr(res)})
            return
        # nickname
        n = case["n"]
        cs = []
        for i in range(n):
            c = run.fresh_int("nick%d" % i)
            run.inputs["nick%d" % i] = c
            run._add(z3.And(c >= 32, c <= 126))          # any printable ASCII character
            cs.append(c)
        nick = SymStr(cs)
        # the framing rule of C05 reserves the text "Err:" for error replies: a nickname containing it cannot be
        # told from a device error by design, so it is outside this property (stated in the evidence)
        if n >= 4:
            t = nick.contains_term("Err:")
            run.assume(z3.Not(t) if not isinstance(t, bool) else (not t))
        port.sym = True
        ok = obj.write_nickname(nick)
        obj.name = None
        obj.query_nickname()
        run.reach("nickname")
        run.prove("nickname:write-succeeds", z3.BoolVal(ok is True and obj.err is None and not board.bad), info={"err": str(obj.err)[:100], "bad": board.bad})
        want = nick.strip()
        got = obj.name
        if isinstance(got, str):
            got = SymStr(tuple(got))
        t = got.eq_term(want) if isinstance(got, SymStr) else False
        run.prove("nickname:read-back-trimmed", z3.BoolVal(t) if isinstance(t, bool) else t, info={"name": repr(obj.name)})

    # ------------------------------------------------------------------------------------------------
    def replay(self, cex):
        """Concrete board with the same semantics, native classes."""
        m3 = loader.native("ebb3_motion")
        i = cex["inputs"]
        label = cex["case"]

        class CBoard:
            def __init__(self):
                self.ram = {}
                self.mode = int(i.get("board_mode", 1))
                self.m1 = i.get("board_m1") in (True, "True")
                self.m2 = i.get("board_m2") in (True, "True")
                self.single = i.get("board_single_motor_allowed") in (True, "True")
                self.nick = ""

            def on_write(self, port, payload):
                txt = payload.concrete_str()
                assert txt.endswith("\r")
                parts = txt[:-1].split(",")
                name = parts[0]
                if name == "ST":
                    self.nick = txt[3:-1]
                    port.queue.append(b"ST\r\n")
                elif name == "QT":
                    port.queue.append(("QT," + self.nick + "\r\n").encode("ascii"))
                elif name == "SL":
                    self.ram[int(parts[2])] = int(parts[1])
                    port.queue.append(b"SL\r\n")
                elif name == "QL":
                    port.queue.append(("QL,%d\r\n" % self.ram.get(int(parts[1]), 7)).encode("ascii"))
                elif name == "CU":
                    if parts[1:] == ["50", "0"]:
                        self.single = True
                    port.queue.append(b"CU\r\n")
                elif name == "EM":
                    e1, e2 = int(parts[1]), int(parts[2])
                    if not (0 <= e1 <= 5 and 0 <= e2 <= 5):
                        port.queue.append(b"!8 Err: parameter outside range\r\n")
                        return
                    if e1:
                        self.mode = e1
                    if not self.single and (e1 or e2):
                        self.m1 = self.m2 = True
                    else:
                        self.m1, self.m2 = bool(e1), bool(e2)
                    port.queue.append(b"EM\r\n")
                elif name == "QE":
                    sc = {1: 16, 2: 8, 3: 4, 4: 2, 5: 1}[self.mode]
                    port.queue.append(("QE,%d,%d\r\n" % (sc if self.m1 else 0, sc if self.m2 else 0)).encode("ascii"))
                else:
                    port.queue.append((name + "\r\n").encode("ascii"))
        b = CBoard()
        obj = m3.EBBMotionWrap()
        port = FakePort(on_write=b.on_write)
        obj.port = port
        try:
            if label.startswith("int32/after-"):
                obj.var_write_int32(int(i["value0"]), int(i["slot0"]))
                if label.endswith("byte-write"):
                    obj.var_write(int(i["value1"]), int(i["slot1"]))
                else:
                    obj.var_write_int32(int(i["value1"]), int(i["slot1"]))
                label = "int32"
            if label == "int32":
                v, s = int(i["value"]), int(i["slot"])
                ok = obj.var_write_int32(v, s)
                by = [b.ram.get(s + k) for k in range(4)]
                back = obj.var_read_int32(s)
                u = v % (1 << 32)
                good = ok is True and by == [(u >> 24) & 255, (u >> 16) & 255, (u >> 8) & 255, u & 255] and back == v and obj.err is None
                return None if good else {"call": "var_write_int32(%d,%d)" % (v, s), "returned": ok, "stored": by, "read_back": back, "err": obj.err}
            if label == "var8":
                v, s = int(i["value"]), int(i["slot"])
                ok = obj.var_write(v, s)
                back = obj.var_read(s)
                return None if (ok is True and back == v) else {"call": "var_write(%d,%d)" % (v, s), "returned": ok, "read_back": back}
            if label == "motors_query":
                res = obj.motors_query_enabled()
                exp = (b.mode if b.m1 else 0, b.mode if b.m2 else 0)
                return None if res == exp else {"returned": res, "expected": exp}
            if label.startswith("motors_enable"):
                r1, r2 = int(i["r1"]), int(i["r2"])
                earlier = []
                if "after-earlier" in label:
                    for k in (1, 2):
                        if "prior%d_r1" % k in i:
                            earlier.append((int(i["prior%d_r1" % k]), int(i["prior%d_r2" % k])))
                            obj.motors_enable(*earlier[-1])
                    if "power-cycle" in label:
                        b.mode = int(i["board2_mode"])
                        b.m1 = i["board2_m1"] in (True, "True")
                        b.m2 = i["board2_m2"] in (True, "True")
                        b.single = i["board2_single_motor_allowed"] in (True, "True")
                prior = (b.mode, b.m1, b.m2, b.single, earlier)
                del port.writes[:]
                obj.motors_enable(r1, r2)
                c1, c2 = max(0, min(5, r1)), max(0, min(5, r2))
                want = c1 if c1 else c2
                good = obj.err is None and b.m1 == bool(c1) and b.m2 == bool(c2) and (not (c1 or c2) or b.mode == want)
                res = obj.motors_query_enabled()
                good = good and res == (want if c1 else 0, want if c2 else 0)
                if good:
                    return None
                return {"call": "motors_enable(%d,%d)" % (r1, r2), "prior (mode,m1,m2,single)": prior, "board after (mode,m1,m2)": (b.mode, b.m1, b.m2),
                        "reported": res, "err": obj.err, "sent": [w.concrete_str() for w in port.writes]}
            n = int(label.split("/")[1])
            nick = "".join(chr(int(i["nick%d" % k])) for k in range(n))
            ok = obj.write_nickname(nick)
            obj.name = None
            obj.query_nickname()
            good = ok is True and obj.name == nick.strip() and obj.err is None
            return None if good else {"call": "write_nickname(%r)" % nick, "returned": ok, "name_read_back": obj.name, "err": obj.err}
        except Exception as ex:
            return {"raised": repr(ex), "case": label}

    def validate(self, tier, seed):
        """(1) to_bytes/from_bytes model vs CPython; (2) symbolic board on constants vs concrete board through the native classes."""
        import random
        from pysx import shims
        from pysx.harness import concrete
        rnd = random.Random(seed)
        n = 0
        vals = [0, 1, -1, 255, 256, -256, I32 - 1, -I32, 0x12345678, -0x12345678] + [rnd.randint(-I32, I32 - 1) for _ in range(20)]
        for v in vals:
            for order in ("big", "little"):
                exp = list(v.to_bytes(4, byteorder=order, signed=True))

                def h(run):
                    bs = shims.int_to_bytes(SymInt(z3.IntVal(v), bound=abs(v)), 4, order, True)
                    back = shims.int_from_bytes(bs, order, True)
                    return [concrete(b) for b in bs], concrete(back)
                got = run_pinned(h)
                assert got == (exp, v), "to_bytes/from_bytes model disagrees with CPython on %d %s: %r" % (v, order, got)
                n += 1
        for (r1, r2, mode, m1, m2, single) in [(3, 3, 1, False, False, False), (0, 2, 1, False, False, False), (0, 2, 3, True, True, True),
                                               (4, 0, 2, False, True, False), (0, 0, 5, True, True, False), (7, -3, 2, False, False, True)]:
            inputs = {"r1": r1, "r2": r2, "board_mode": mode, "board_m1": m1, "board_m2": m2, "board_single_motor_allowed": single}
            assert self.replay({"case": "motors_enable", "inputs": inputs}) is None, "concrete board rejects the clean code"

            def h2(run):
                e3, m3 = stack.load_ebb3()
                obj = m3.EBBMotionWrap()
                board = Board(run)
                run.assume(z3.And(board.mode == mode, board.m1 == m1, board.m2 == m2, board.single == single))
                port = FakePort(on_write=board.on_write)
                obj.port = port
                obj.motors_enable(SymInt(z3.IntVal(r1), bound=9), SymInt(z3.IntVal(r2), bound=9))
                r, mdl = run.check_sat([])
                return (engine.model_value(mdl, board.mode), engine.model_value(mdl, board.m1), engine.model_value(mdl, board.m2),
                        [w.concretize() if not w.is_concrete() else w.concrete_str() for w in [SymStr(tuple(_render(w))) for w in port.writes]])
            got = run_pinned(h2)
            c1, c2 = max(0, min(5, r1)), max(0, min(5, r2))
            want = c1 if c1 else c2
            assert got[1] == bool(c1) and got[2] == bool(c2) and (not (c1 or c2) or got[0] == want), "symbolic board: %r" % (got,)
            n += 1
        return n


def _render(w):
    out = []
    for p in pieces(w):
        if isinstance(p, str):
            out.extend(p)
        else:
            out.extend(str(z3.simplify(p.num.t).as_long()))
    return out


if __name__ == "__main__":
    main(Check())
