"""C02 - jerk (T3) move prediction equals the third-order firmware recurrence.

ebb_calc.move_dist_t3 and rate_t3 are executed on symbolic integers (T symbolic, not unrolled).  The mp
model is exact-rational with error-bound tracking for the inherently rounded operations (/6); round()
of such a value is any integer within 1/2 of the exact value, and the solver proves it is the oracle's
integer.  The oracle is the closed form of the recurrence, proved to be the recurrence by induction
lemmas with unbounded T."""
import os
import random

import mpmath
import z3

from pysx import engine, loader, calc
from pysx.harness import CheckBase, main, run_pinned, concrete, test_rows, NotPinned
from pysx.values import SymInt, PREC

M31 = 1 << 31
RMAX = 1 << 31
TMAX_DIST = 1 << 20
TMAX_DIST_THOROUGH = 1 << 22
TMAX_RATE = 1 << 32


def r0_py(rate, accel, jerk):
    return rate - calc.py_trunc_div(accel, 2) + calc.py_trunc_div(jerk, 6)


def R_py(k, rate, accel, jerk):
    return r0_py(rate, accel, jerk) + k * accel + jerk * k * (k - 1) // 2


def clear_py(rate, accel, jerk):
    for k in (1, 2, 3):
        r = R_py(k, rate, accel, jerk)
        if r != 0:
            return M31 - 1 if r < 0 else 0
    return 0


def oracle_py(T, rate, accel, jerk, accum):
    if accum == "clear":
        accum = clear_py(rate, accel, jerk)
    S6 = 6 * accum + 6 * T * r0_py(rate, accel, jerk) + 3 * accel * T * (T + 1) + jerk * (T - 1) * T * (T + 1)
    assert S6 % 6 == 0
    S = S6 // 6
    return S // M31, S % M31


def oracle_loop(T, rate, accel, jerk, accum):
    r = r0_py(rate, accel, jerk)
    a = accel
    if accum == "clear":
        accum = clear_py(rate, accel, jerk)
    total = accum
    for _ in range(T):
        r += a
        a += jerk
        total += r
    return (total // M31, total % M31), r


def zR(k, rate, accel, jerk):
    """2*R(k) as z3 term"""
    r0 = rate - calc.trunc2(accel) + calc.trunc6(jerk)
    return 2 * r0 + 2 * k * accel + jerk * k * (k - 1)


def zclear(rate, accel, jerk):
    R1, R2, R3 = (zR(z3.IntVal(k), rate, accel, jerk) for k in (1, 2, 3))
    return z3.If(R1 < 0, M31 - 1, z3.If(R1 > 0, 0, z3.If(R2 < 0, M31 - 1, z3.If(R2 > 0, 0, z3.If(R3 < 0, M31 - 1, 0)))))


def capture(ec):
    """Record the results of round() and the arguments of mpmath.floor() made by the code under test."""
    rounded, floored = [], []
    shim_round, shim_floor = ec.round, ec.mpmath.floor

    def capturing_round(x, *a):
        r = shim_round(x, *a)
        rounded.append(r)
        return r

    def capturing_floor(x):
        floored.append(x)
        return shim_floor(x)
    ec.round = capturing_round
    ec.mpmath.floor = capturing_floor
    return rounded, floored


def hint_lemmas(run, tag, X, rounded, floored):
    """Staging lemmas (proved on this path, then assumed; a failed or undecided one is simply not used):
    some intermediate of the code equals the oracle total S(T) - the last integer produced by round(), or
    the exact model value of an argument of floor() (as S(T) or S(T)/2^31).  They split the non-linear
    polynomial identity from the linear div/mod reasoning of the final obligations."""
    from pysx.values import SymQ
    used = 0
    if rounded and isinstance(rounded[-1], SymInt):
        v = run.prove(tag + ":lemma round()=S(T)", rounded[-1].t == X, soft=True, record_cex=False)
        if v == "unsat":
            run.assume(rounded[-1].t == X)
            used += 1
    if not used:
        for q in floored[-1:]:
            if isinstance(q, SymQ):
                for nm, scale in (("S(T)/2^31", M31), ("S(T)", 1)):
                    v = run.prove(tag + ":lemma floor-argument=" + nm, q.num * scale == X * q.den, soft=True, record_cex=False,
                                  rlimit=200_000_000)
                    if v == "unsat":
                        run.assume(q.num * scale == X * q.den)
                        used += 1
                        break
    return used


class Check(CheckBase):
    pid = "C02"
    title = "T3 move prediction = third-order recurrence"
    bounds = {"rate/accel/jerk": "|.| <= 2^31", "T (move_dist_t3)": "1 <= T <= 2^20 (quick) / 2^22 (thorough) symbolic (42 / 168 s of motion): at 103 bits the "
              "accumulated mp rounding error stays below the 1/12 that round() tolerates here (the margin is gone near T = 2^24)",
              "T (rate_t3)": "1 <= T <= 2^32 symbolic, under |jerk|*T^2 < 2^40 and |accel|*T < 2^40 (binary64 exactness of every intermediate is then proved by the solver)",
              "accum": "0 <= accum < 2^31, or 'clear'", "ambient precision": "any mantissa size >= 4 bits"}
    outside = ["T > 2^20 for move_dist_t3", "rate_t3 outside |jerk|*T^2 < 2^40, |accel|*T < 2^40: there binary64 rounding makes rate_t3 differ from the recurrence, e.g. "
               "rate_t3(2097153,-2147483648,2147482113,-1023) is off by one (found by this check with the looser bound 2^52); the "
               "firmware-valid domain (|R(k)| <= 2^31 on 1..T) implies |jerk|*(T-1)^2 <= 2^35 and |accel|*T <= 2^37 by a second-difference "
               "argument (paper argument, not solver-checked), so it lies inside the assumed box",
               "non-integer arguments", "T = 0"]
    stubs = ["mpmath model: exact rationals + precision in force + error bounds for rounded operations (/6)",
             "round(x) of a rounded mp value: any integer within 1/2 of the exact value (requires error bound < 1/(2*den))",
             "binary64 operations in rate_t3: exact rationals, each proved exactly representable (|numerator| < 2^53)",
             "int(x): truncation toward zero"]
    lemmas = ["R(k+1)-R(k) = accel + k*jerk, R(1) = r0+accel (unbounded k)",
              "S(T+1)-S(T) = R(T+1), S(0) = accum (unbounded T): the closed forms are the recurrence by induction",
              "with jerk = 0 the T3 closed form equals the timed-move closed form of C01"]

    def functions_encoded(self):
        return loader.encoded("ebb_calc", ["move_dist_t3", "rate_t3", "move_dist_lt"])

    def cases(self, tier):
        cs = [{"label": "lemma"}]
        tmax = TMAX_DIST if tier == "quick" else TMAX_DIST_THOROUGH
        for mode in ("given", "clear", "default"):
            cs.append({"label": "move_dist_t3/" + mode, "fn": "move_dist_t3", "mode": mode, "tmax": tmax, "split_depth": 4})
        cs.append({"label": "rate_t3", "fn": "rate_t3", "mode": None})
        for mode in ("given", "clear"):
            cs.append({"label": "zero-jerk/" + mode, "fn": "zero-jerk", "mode": mode, "tmax": tmax, "split_depth": 4})
        return cs

    def config(self, tier, case):
        return engine.Config(ob_rlimit=int(os.environ.get("C02_RLIMIT", "600000000")), soft_alternatives=6, soft_samples=60,
                             approx_rlimit=60_000_000, approx_timeout_ms=45_000)

    def expected_reach(self, tier):
        return ["lemma", "move_dist_t3/given:snap", "move_dist_t3/given:nosnap", "move_dist_t3/clear:snap",
                "move_dist_t3/clear:nosnap", "move_dist_t3/default:snap", "rate_t3", "zero-jerk/given", "zero-jerk/clear"]

    def harness(self, run, case):
        if case["label"] == "lemma":
            a, j, r0, c, k = z3.Ints("a j r0 c k")

            def R2(t):
                return 2 * r0 + 2 * t * a + j * t * (t - 1)

            def S6(t):
                return 6 * c + 6 * t * r0 + 3 * a * t * (t + 1) + j * (t - 1) * t * (t + 1)
            run.reach("lemma")
            run.prove("lemma:R(1)=r0+a", R2(z3.IntVal(1)) == 2 * (r0 + a))
            run.prove("lemma:R(k+1)-R(k)=a+k*j", R2(k + 1) - R2(k) == 2 * (a + k * j))
            run.prove("lemma:S(0)=accum", S6(z3.IntVal(0)) == 6 * c)
            run.prove("lemma:S(T+1)-S(T)=R(T+1)", S6(k + 1) - S6(k) == 3 * R2(k + 1))
            run.prove("lemma:zero-jerk S_T3 = S_LT", z3.substitute(S6(k), (j, z3.IntVal(0))) ==
                      3 * (2 * c + 2 * k * r0 + a * k * (k + 1)))
            return
        calc.begin_path()
        ec = calc.load_ebb_calc()
        fn = case["fn"]
        tag = case["label"]
        rate = run.int("rate", -RMAX, RMAX)
        accel = run.int("accel", -RMAX, RMAX)
        if fn == "rate_t3":
            jerk = run.int("jerk", -RMAX, RMAX)
            T = run.int("T", 1, TMAX_RATE)
            run.assume(calc.zabs(jerk.t) * T.t * T.t < (1 << 40))
            run.assume(calc.zabs(accel.t) * T.t < (1 << 40))
            res = ec.rate_t3(T, rate, accel, jerk)
            run.reach("rate_t3")
            assert isinstance(res, (SymInt, int)), "rate_t3 must return an int, got %r" % type(res)
            run.prove("rate_t3:value", 2 * (res.t if isinstance(res, SymInt) else res) == zR(T.t, rate.t, accel.t, jerk.t))
            calc.precision_obligations(run, tag)
            return
        mode = case["mode"]
        T = run.int("T", 1, case.get("tmax", TMAX_DIST))
        if mode == "given":
            accum = run.int("accum", 0, M31 - 1)
            acc0 = accum.t
        else:
            accum = "clear"
        if fn == "zero-jerk":
            rounded, floored = capture(ec)
            res = ec.move_dist_t3(T, rate, accel, 0, accum)
            res2 = ec.move_dist_lt(rate, accel, T, accum)
            run.reach(tag)
            # both results are compared with the same integer X = S_LT(T) (equality by transitivity)
            r0 = rate.t - calc.trunc2(accel.t)
            if mode != "given":
                r1 = r0 + accel.t
                acc0 = z3.If(z3.Or(r1 < 0, z3.And(r1 == 0, accel.t < 0)), M31 - 1, 0)
            X = run.fresh_int("S")
            run.assume(2 * X == 2 * acc0 + 2 * T.t * r0 + accel.t * T.t * (T.t + 1))
            hint_lemmas(run, tag, X, rounded, floored)
            for i, nm, ox in ((0, "position", X / M31), (1, "accumulator", X % M31)):
                for which, rr in (("t3", res), ("lt", res2)):
                    a = rr[i]
                    run.prove("%s:%s-%s" % (tag, nm, which), (a.t if isinstance(a, SymInt) else a) == ox)
            calc.precision_obligations(run, tag)
            return
        jerk = run.int("jerk", -RMAX, RMAX)
        rounded, floored = capture(ec)
        res = ec.move_dist_t3(T, rate, accel, jerk, accum) if mode != "default" else ec.move_dist_t3(T, rate, accel, jerk)
        if mode != "given":
            acc0 = zclear(rate.t, accel.t, jerk.t)
        r0 = rate.t - calc.trunc2(accel.t) + calc.trunc6(jerk.t)
        S6 = 6 * acc0 + 6 * T.t * r0 + 3 * accel.t * T.t * (T.t + 1) + jerk.t * (T.t - 1) * T.t * (T.t + 1)
        X = run.fresh_int("S")
        run.assume(6 * X == S6)       # (T-1)T(T+1) is divisible by 6 and T(T+1) by 2; also follows from the lemmas
        # classify the path for the reachability witnesses: snap <=> accel even and jerk divisible by 6
        m = run.model
        snap = m is not None and engine.model_value(m, accel.t) % 2 == 0 and engine.model_value(m, jerk.t) % 6 == 0
        run.reach(tag + (":snap" if snap else ":nosnap"))
        pos, acc = res
        assert isinstance(pos, (SymInt, int)) and isinstance(acc, (SymInt, int))
        hint_lemmas(run, tag, X, rounded, floored)
        run.prove(tag + ":position", (pos.t if isinstance(pos, SymInt) else pos) == X / M31)
        run.prove(tag + ":accumulator", (acc.t if isinstance(acc, SymInt) else acc) == X % M31)
        calc.precision_obligations(run, tag)

    # ---------------------------------------------------------------------------------------------
    def replay(self, cex):
        if cex["obligation"].startswith("lemma"):
            return {"lemma": "closed form is not the recurrence (oracle bug)"}
        ec = loader.native("ebb_calc")
        i = cex["inputs"]
        label = cex["case"]
        rate, accel, T = int(i["rate"]), int(i["accel"]), int(i["T"])
        jerk = int(i.get("jerk", 0))
        precs = []
        if "ambient_B" in i:
            precs.append(max(1, int(i["ambient_B"]).bit_length() - 1))
        precs += [53, 24, 10, 113]
        saved = mpmath.mp.prec
        try:
            for p in precs:
                mpmath.mp.prec = p
                if label == "rate_t3":
                    got = ec.rate_t3(T, rate, accel, jerk)
                    exp = R_py(T, rate, accel, jerk)
                    if T <= 5000:
                        assert exp == oracle_loop(T, rate, accel, jerk, 0)[1]
                    if got != exp or type(got) is not int:
                        return {"call": "rate_t3(%d,%d,%d,%d)" % (T, rate, accel, jerk), "got": str(got), "expected": exp}
                    continue
                fn, mode = label.split("/")
                accum = int(i["accum"]) if mode == "given" else "clear"
                if fn == "zero-jerk":
                    got = ec.move_dist_t3(T, rate, accel, 0, accum)
                    mpmath.mp.prec = p
                    exp = ec.move_dist_lt(rate, accel, T, accum)
                    call = "move_dist_t3(%d,%d,%d,0,%r) vs move_dist_lt" % (T, rate, accel, accum)
                else:
                    got = ec.move_dist_t3(T, rate, accel, jerk, accum) if mode != "default" else ec.move_dist_t3(T, rate, accel, jerk)
                    exp = oracle_py(T, rate, accel, jerk, accum)
                    if T <= 5000:
                        assert exp == oracle_loop(T, rate, accel, jerk, accum)[0]
                    call = "move_dist_t3(%d,%d,%d,%d,%r)" % (T, rate, accel, jerk, accum)
                if tuple(got) != tuple(exp) or not all(type(g) is int for g in got):
                    return {"call": call, "ambient_mp_prec": p, "got": [str(g) for g in got], "expected": [str(e) for e in exp]}
        finally:
            mpmath.mp.prec = saved
        return None

    def validate(self, tier, seed):
        rnd = random.Random(seed)
        nat = loader.native("ebb_calc")
        n = 0
        rows = []
        for v in test_rows("test_ebb_calc.py", "test_move_dist_t3", 7):
            if all(isinstance(x, int) for x in v[:4]) and (isinstance(v[4], int) or v[4] == "clear"):
                rows.append(tuple(v[:5]))
        assert len(rows) >= 10, "could not read the repository's move_dist_t3 test table"
        for _ in range(30):
            rows.append((rnd.randint(1, 3000), rnd.randint(-RMAX, RMAX), rnd.randint(-200000, 200000), rnd.randint(-200, 200),
                         rnd.choice(["clear", rnd.randint(0, M31 - 1)])))
        for _ in range(20):
            rows.append((rnd.randint(1, TMAX_DIST), rnd.randint(-RMAX, RMAX), rnd.randint(-RMAX, RMAX), rnd.randint(-RMAX, RMAX),
                         rnd.choice(["clear", rnd.randint(0, M31 - 1)])))

        def sym(v):
            return SymInt(z3.IntVal(v), bound=abs(v))
        for (T, rate, accel, jerk, accum) in rows:
            if T < 1:
                continue
            exp = nat.move_dist_t3(T, rate, accel, jerk, accum)

            def h(run):
                calc.begin_path()
                ec = calc.load_ebb_calc()
                r = ec.move_dist_t3(sym(T), sym(rate), sym(accel), sym(jerk), accum if accum == "clear" else sym(accum))
                return concrete(tuple(r))
            try:
                got = run_pinned(h)
            except NotPinned:
                continue          # the code's result depends on a rounding direction the model leaves open
            assert tuple(got) == tuple(exp), "translator validation failed on %r: %r vs %r" % ((T, rate, accel, jerk, accum), got, exp)
            if T <= 3000:
                assert oracle_py(T, rate, accel, jerk, accum) == oracle_loop(T, rate, accel, jerk, accum)[0]
            n += 1
        rrows = [tuple(v[:4]) for v in test_rows("test_ebb_calc.py", "test_rate_t3", 5) if all(isinstance(x, int) for x in v[:4])]
        assert len(rrows) >= 10, "could not read the repository's rate_t3 test table"
        for _ in range(30):
            rrows.append((rnd.randint(1, 5000), rnd.randint(-RMAX, RMAX), rnd.randint(-200000, 200000), rnd.randint(-2000, 2000)))
        for (T, rate, accel, jerk) in rrows:
            if T < 1:
                continue
            exp = nat.rate_t3(T, rate, accel, jerk)

            def h2(run):
                calc.begin_path()
                ec = calc.load_ebb_calc()
                return concrete(ec.rate_t3(sym(T), sym(rate), sym(accel), sym(jerk)))
            got = run_pinned(h2)
            assert got == exp, "translator validation failed on rate_t3%r: %r vs %r" % ((T, rate, accel, jerk), got, exp)
            n += 1
        return n


if __name__ == "__main__":
    main(Check())
