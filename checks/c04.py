"""C04 - an EBB3 connection object latches its first error and then transmits nothing.

One inductive step per public method (enumerated by introspection of the shim-loaded classes, so new
methods are covered automatically): from each blocked pre-state (no port, or an error recorded) the
method is run with symbolic arguments; it must write nothing, keep the very same error object and
return its failure value.  connect/disconnect are run from every pre-state with a symbolic handshake:
they must never replace a recorded error.  Blocked is absorbing, so histories of any length follow by
induction."""
import inspect

import serial
import z3

from pysx import engine, loader, stack
from pysx.harness import CheckBase, main
from pysx.serialmodel import FakePort, future_conforming
from pysx.strs import SymStr, SymBytes
from pysx.values import SymInt

R = 1 << 31
STR_PARAMS = {"cmd", "qry", "nickname", "message", "given_name", "caller", "version_string", "ebb_version_string", "name"}
# not requests: object management / pure helpers (they may run in any state; connect/disconnect are checked separately)
EXEMPT = {"connect", "disconnect", "find_first", "record_error", "parse_version", "min_version"}
FAILURE = "failure value: False, None or a tuple of Nones"
ALPHA = "abQSTv1,: \r"


def sym_str(run, name, n):
    cs = []
    for i in range(n):
        c = run.fresh_int("%s_c%d" % (name, i))
        run.inputs["%s[%d]" % (name, i)] = c
        run._add(z3.Or([c == ord(a) for a in ALPHA]))
        cs.append(c)
    return SymStr(cs)


def public_methods(cls):
    out = []
    for name, fn in inspect.getmembers(cls, predicate=inspect.isfunction):
        if name.startswith("_"):
            continue
        out.append(name)
    return sorted(out)


def is_failure(v):
    if v is None or v is False:
        return True
    if isinstance(v, tuple) and all(x is None for x in v):
        return True
    return False


class Check(CheckBase):
    pid = "C04"
    title = "EBB3 object latches its first error"
    bounds = {"methods": "all public methods of EBB3 and EBBMotionWrap found by introspection at run time",
              "pre-states": "port in {None, fake port} x err in {None, symbolic message}; blocked = port None or err set",
              "arguments": "integers symbolic in [-2^31, 2^31]; strings symbolic, 3 chars over %r" % ALPHA,
              "handshake (connect)": "each of the two probes: empty / non-EBB text / EBB banner (fw 2.8.1 or 3.0.2) / SerialException; Serial() may raise"}
    outside = ["methods whose names start with '_'", "objects whose attributes are mutated from outside the class",
               "the induction over call histories itself (standard argument; each step is solver/engine-discharged)"]
    stubs = ["serial.Serial -> fake port factory", "comports -> one EBB descriptor", "fake port answering like a conforming board"]
    assumptions = ["failure values: False, None, or a tuple of Nones"]

    def functions_encoded(self):
        d = loader.encoded("ebb3_serial", public_methods(self._classes()[0]) + ["record_error", "_get_port_name"])
        d.update(loader.encoded("ebb3_motion", public_methods(self._classes()[1])))
        return d

    def _classes(self):
        e3, m3 = stack.load_ebb3()
        return e3.EBB3, m3.EBBMotionWrap

    def cases(self, tier):
        base, wrap = self._classes()
        cs = []
        for cls_name, cls in (("EBB3", base), ("EBBMotionWrap", wrap)):
            for m in public_methods(cls):
                if cls_name == "EBBMotionWrap" and m in base.__dict__ and m not in wrap.__dict__ and m not in ("connect", "disconnect"):
                    # inherited unchanged: still run on the subclass instance (cheap), label marks it
                    pass
                for state in ("noport", "noport+err", "port+err"):
                    if m in EXEMPT and m not in ("connect", "disconnect"):
                        continue
                    cs.append({"label": "%s.%s/%s" % (cls_name, m, state), "cls": cls_name, "method": m, "state": state})
                if m in ("connect", "disconnect"):
                    cs.append({"label": "%s.%s/port" % (cls_name, m), "cls": cls_name, "method": m, "state": "port"})
        # the latch must also hold *inside* a method that issues several requests: a fault at a solver-chosen request of
        # the call, then nothing more may be transmitted by that same call (harness shared with C05 part B)
        from checks import c05
        for m in public_methods(wrap):
            if m in c05.EXEMPT_B or m in ("reboot", "bootload"):
                continue
            for f in ("timeout", "err-line", "read-exception"):
                cs.append({"label": "B/%s/%s" % (m, f), "part": "B", "method": m, "fault": f, "midcall": True})
        return cs

    def config(self, tier, case):
        return engine.Config(max_decisions=120)

    def expected_reach(self, tier):
        return ["blocked-call", "connect:err-kept", "connect:fresh-ok", "connect:fresh-fail", "disconnect", "midcall"]

    def harness(self, run, case):
        if case.get("midcall"):
            from checks import c05
            run.reach("midcall")
            return c05.Check().harness_b(run, case)
        handshake = {"i": 0}

        def comports_stub():
            return [("/dev/ttyACM0", "EiBotBoard", "USB VID:PID=04D8:FD92 SER=ABC LOCATION=1-1")]

        ports_made = []

        def mk_handshake_port():
            def responder(port):
                i = handshake["i"]
                last = port.writes[-1] if port.writes else None
                if last is not None and last.is_concrete() and last.concrete_str() == "v\r" and i < 2:
                    handshake["i"] += 1
                    port.queue = []
                    k = run.choose(5, "probe%d" % i)
                    if k == 0:
                        return b""
                    if k == 1:
                        return b"Hello world\r\n"
                    if k == 2:
                        return b"EBBv13_and_above EB Firmware Version 2.8.1\r\n"
                    if k == 3:
                        return b"EBBv13_and_above EB Firmware Version 3.0.2\r\n"
                    raise serial.SerialException("read failed")
                if port.queue:
                    return port.queue.pop(0)
                return b""
            p = FakePort(responder=responder, on_write=future_conforming)
            ports_made.append(p)
            return p

        class SerialStub:
            SerialException = serial.SerialException
            serialutil = serial.serialutil

            @staticmethod
            def Serial(name, timeout=None):
                if run.choose(2, "open") == 1:
                    raise serial.SerialException("could not open port")
                return mk_handshake_port()

        e3, m3 = stack.load_ebb3(extra_serial={"serial": SerialStub, "comports": comports_stub})
        cls = e3.EBB3 if case["cls"] == "EBB3" else m3.EBBMotionWrap
        obj = cls()
        state = case["state"]
        port = None
        if state in ("port", "port+err"):
            port = FakePort(on_write=future_conforming)
            obj.port = port
            obj.version = "3.0.2"
            obj.version_parsed = e3.parse("3.0.2")
        err0 = None
        if state.endswith("err"):
            err0 = sym_str(run, "err", 3)
            obj.err = err0
        method = case["method"]
        fn = getattr(obj, method)
        sig = inspect.signature(fn)
        args = []
        for pname, prm in sig.parameters.items():
            if pname in STR_PARAMS:
                if method == "connect":
                    args.append(None)
                else:
                    args.append(sym_str(run, pname, 3))
            else:
                args.append(run.int(pname, -R, R))
        tag = case["label"]
        try:
            ret = fn(*args)
        except Exception as ex:   # engine control flow derives from BaseException and passes through
            run.prove(tag + ":no-exception", z3.BoolVal(False), info={"raised": repr(ex)[:200]})
            return
        if method == "disconnect":
            run.reach("disconnect")
            ok = obj.port is None and obj.err is err0 and (port is None or not port.writes)
            run.prove(tag + ":closes-keeps-error-writes-nothing", z3.BoolVal(bool(ok)))
            return
        if method == "connect":
            if err0 is not None:
                run.reach("connect:err-kept")
                run.prove(tag + ":recorded-error-not-replaced", z3.BoolVal(obj.err is err0))
                if state == "noport+err":
                    # a blocked object may only run the identification handshake
                    pass
            else:
                good = isinstance(obj.err, (str, SymStr)) or obj.err is None
                run.reach("connect:fresh-ok" if obj.err is None else "connect:fresh-fail")
                run.prove(tag + ":err-is-None-or-text", z3.BoolVal(bool(good)))
            return
        # blocked request
        run.reach("blocked-call")
        wrote = bool(port is not None and port.writes) or any(p.writes for p in ports_made)
        run.prove(tag + ":writes-nothing", z3.BoolVal(not wrote),
                  info={"written": [repr(w) for w in (port.writes if port else [])][:3]})
        run.prove(tag + ":error-object-unchanged", z3.BoolVal(obj.err is err0))
        run.prove(tag + ":returns-failure-value", z3.BoolVal(is_failure(ret)), info={"returned": repr(ret)[:100]})
        run.prove(tag + ":still-blocked", z3.BoolVal(obj.port is port and (obj.port is None or obj.err is not None)))

    # ---------------------------------------------------------------------------------------------
    def replay(self, cex):
        e3 = loader.native("ebb3_serial")
        m3 = loader.native("ebb3_motion")
        label = cex["case"]
        if label.startswith("B/"):
            from checks import c05
            _b, method, fault = label.split("/")
            return c05.Check().replay_b(cex, {"method": method, "fault": fault}, m3, e3)
        clsname, rest = label.split(".", 1)
        method, state = rest.split("/")
        cls = e3.EBB3 if clsname == "EBB3" else m3.EBBMotionWrap
        obj = cls()
        inputs = cex["inputs"]

        def s_of(name):
            return "".join(chr(int(inputs.get("%s[%d]" % (name, i), 97))) for i in range(3))
        probes = [int(v) for k, v in sorted(inputs.items()) if k.startswith("probe")]
        port = None
        if state in ("port", "port+err"):
            port = FakePort(on_write=future_conforming)
            obj.port = port
            obj.version = "3.0.2"
            obj.version_parsed = e3.parse("3.0.2")
        err0 = None
        if state.endswith("err"):
            err0 = s_of("err")
            obj.err = err0
        made = []
        orig_serial, orig_comports = e3.serial.Serial, e3.comports
        choices = {"open": 0, "probes": [3, 3]}
        # the harness-level choices are fresh variables named probe0!k / open!k in the model; recover them by prefix
        for k, v in inputs.items():
            pass
        observed = None
        try:
            sig = inspect.signature(getattr(obj, method))
            args = []
            for pname in sig.parameters:
                if pname in STR_PARAMS:
                    args.append(None if method == "connect" else s_of(pname))
                else:
                    args.append(int(inputs.get(pname, 0)))
            if method == "connect":
                results = []
                for open_fail in (False, True):
                    for p0 in range(5):
                        for p1 in range(5):
                            o = cls()
                            o.err = err0
                            o.port = None
                            if state in ("port", "port+err"):
                                o.port = FakePort(on_write=future_conforming)
                            seq = [p0, p1]
                            idx = {"i": 0}

                            def responder(pt, seq=seq, idx=idx):
                                i = idx["i"]
                                last = pt.writes[-1].concrete_str() if pt.writes else None
                                if last == "v\r" and i < 2:
                                    idx["i"] += 1
                                    pt.queue = []
                                    k = seq[i]
                                    if k == 0:
                                        return b""
                                    if k == 1:
                                        return b"Hello world\r\n"
                                    if k == 2:
                                        return b"EBBv13_and_above EB Firmware Version 2.8.1\r\n"
                                    if k == 3:
                                        return b"EBBv13_and_above EB Firmware Version 3.0.2\r\n"
                                    raise serial.SerialException("read failed")
                                return pt.queue.pop(0) if pt.queue else b""

                            def fake_serial(name, timeout=None, open_fail=open_fail, responder=responder):
                                if open_fail:
                                    raise serial.SerialException("could not open port")
                                return FakePort(responder=responder, on_write=future_conforming)
                            e3.serial.Serial = fake_serial
                            e3.comports = lambda: [("/dev/ttyACM0", "EiBotBoard", "USB VID:PID=04D8:FD92 SER=ABC LOCATION=1-1")]
                            try:
                                o.connect()
                            except Exception as ex:
                                return {"raised": repr(ex), "handshake": [open_fail, p0, p1]}
                            if err0 is not None and o.err is not err0:
                                return {"err_replaced_by": repr(o.err)[:200], "handshake": [open_fail, p0, p1]}
                            if err0 is None and not (o.err is None or isinstance(o.err, str)):
                                return {"err": repr(o.err), "handshake": [open_fail, p0, p1]}
                return None
            try:
                ret = getattr(obj, method)(*args)
            except Exception as ex:
                return {"raised": repr(ex)}
            if method == "disconnect":
                if not (obj.port is None and obj.err is err0 and (port is None or not port.writes)):
                    return {"port": repr(obj.port), "err": repr(obj.err)}
                return None
            problems = {}
            if port is not None and port.writes:
                problems["written"] = [w.concrete_str() for w in port.writes]
            if obj.err is not err0:
                problems["err_now"] = repr(obj.err)[:200]
            if not is_failure(ret):
                problems["returned"] = repr(ret)
            return problems or None
        finally:
            e3.serial.Serial, e3.comports = orig_serial, orig_comports

    def validate(self, tier, seed):
        """Shim-loaded classes behave like the native ones on a concrete session (connect, request, fault, request)."""
        n = 0
        for native in (True, False):
            pass
        from pysx.harness import run_pinned
        e3n, m3n = loader.native("ebb3_serial"), loader.native("ebb3_motion")

        def session(m3mod):
            obj = m3mod.EBBMotionWrap()
            port = FakePort(on_write=future_conforming)
            obj.port = port
            log = []
            log.append(obj.xy_move(1, 2, 3))
            log.append(obj.query("QS"))
            port.on_write = lambda p, w: p.queue.append(b"!8 Err: bad\r\n")
            log.append(obj.command("SM,1,0,0"))
            log.append(bool(obj.err))
            n_before = len(port.writes)
            log.append(obj.xy_move(1, 2, 3))
            log.append(obj.query_steps())
            log.append(len(port.writes) == n_before)
            return log, [w.concrete_str() for w in port.writes]
        exp = session(m3n)
        got = run_pinned(lambda run: session(stack.load_ebb3()[1]))
        assert exp == got, "translator validation failed: %r vs %r" % (exp, got)
        return 7


if __name__ == "__main__":
    main(Check())
