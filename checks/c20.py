"""C20 - text helpers: XML escaping round-trips; durations format to the nearest second.

xml_escape runs on a symbolic string (every character symbolic over the XML-special characters, the
letters that spell the entities and a generic 'other'); the escaped text is scanned by a reference
decoder of the five predefined entities (validated against lxml each run).  format_hms runs on a
symbolic duration (milliseconds as an integer, seconds as k/1000); the formatted text decodes to
literals and (term, format-spec) tokens that the solver compares with the rounding specification."""
import z3

from pysx import engine, loader, shims
from pysx.harness import CheckBase, main, run_pinned, NotPinned, active_findings
from pysx.strs import SymStr, NumTok, ch_eq, decide, elems, zand, zor
from pysx.serialmodel import pieces
from pysx.tokens import has_token
from pysx.strs import from_token_str
from pysx.values import SymInt, SymQ, SymBool

XML_ALPHA = "&<>\"';#amplt gquosx"
ENT = {"amp": "&", "lt": "<", "gt": ">", "quot": '"', "apos": "'"}
DMAX = 10 ** 7


def load():
    return loader.load_plotink("text_utils", shims.std_overrides(real_tower=False))


SP, TAB, LF, CR = " ", "\t", "\n", "\r"


def _is(c, ch):
    return decide(ch_eq(c, ch))


def xml_read_ref(s, context):
    """What a standard XML 1.0 parser hands back for the literal text s (a SymStr; forks on symbolic characters)
    placed in element content (context 'content') or in a quoted attribute value ('attr'):
      - line ends are normalised first (section 2.11: CR LF and a lone CR become LF);
      - in an attribute value every literal TAB / LF becomes a space (section 3.3.3, CDATA attributes);
      - the five predefined entities and numeric character references (&#N; &#xH;) are replaced by their
        character - a referenced character is not normalised.
    Returns a SymStr, or None if an '&' does not start such a reference (not well-formed)."""
    e = list(s.e)
    # line ends
    lit, i, n = [], 0, len(e)
    while i < n:
        c = e[i]
        if _is(c, CR):
            if i + 1 < n and _is(e[i + 1], LF):
                i += 1
            lit.append(LF)
        else:
            lit.append(c)
        i += 1
    if context == "attr":
        # no fork needed: the shape does not change
        lit = [(SP if c in (TAB, LF) else c) if isinstance(c, str) else z3.If(z3.Or(c == 9, c == 10), z3.IntVal(32), c) for c in lit]
    out, i, n = [], 0, len(lit)
    while i < n:
        c = lit[i]
        if not _is(c, "&"):
            out.append(c)
            i += 1
            continue
        hit = False
        for name, ch in ENT.items():
            pat = name + ";"
            if i + 1 + len(pat) <= n and decide(zand(ch_eq(lit[i + 1 + k], pat[k]) for k in range(len(pat)))):
                out.append(ch)
                i += 1 + len(pat)
                hit = True
                break
        if hit:
            continue
        if i + 1 < n and _is(lit[i + 1], "#"):
            j = i + 2
            hexa = j < n and _is(lit[j], "x")
            if hexa:
                j += 1
            digits = "0123456789abcdefABCDEF" if hexa else "0123456789"
            val, nd = 0, 0
            while j < n and nd < 8:
                d = next((x for x in digits if _is(lit[j], x)), None)
                if d is None:
                    break
                val = val * (16 if hexa else 10) + int(d, 16)
                nd += 1
                j += 1
            if nd and j < n and _is(lit[j], ";") and (val in (9, 10, 13) or 0x20 <= val <= 0xD7FF or 0xE000 <= val <= 0xFFFD
                                                      or 0x10000 <= val <= 0x10FFFF):
                out.append(chr(val))
                i = j + 1
                continue
        return None
    return SymStr(out)


def unescape_ref(s):
    return xml_read_ref(s, "content")


def xml_read_py(s, context):
    """Concrete twin of xml_read_ref (validated against lxml and ElementTree on every run)."""
    s = s.replace("\r\n", "\n").replace("\r", "\n")
    if context == "attr":
        s = s.replace("\t", " ").replace("\n", " ")
    out, i = [], 0
    while i < len(s):
        if s[i] != "&":
            out.append(s[i])
            i += 1
            continue
        for name, ch in ENT.items():
            if s.startswith(name + ";", i + 1):
                out.append(ch)
                i += 2 + len(name)
                break
        else:
            import re as _re
            m = _re.compile(r"&#(?:x([0-9a-fA-F]{1,8})|([0-9]{1,8}));").match(s, i)
            if not m:
                return None
            val = int(m.group(1), 16) if m.group(1) else int(m.group(2))
            if not (val in (9, 10, 13) or 0x20 <= val <= 0xD7FF or 0xE000 <= val <= 0xFFFD or 0x10000 <= val <= 0x10FFFF):
                return None
            out.append(chr(val))
            i = m.end()
    return "".join(out)


def unescape_py(s):
    return xml_read_py(s, "content")


def tb(x):
    return z3.BoolVal(x) if isinstance(x, bool) else (x.t if isinstance(x, SymBool) else x)


class Num:
    """a rendered non-negative integer: decimal digits of `term`, zero-padded to at least `width`"""

    def __init__(self, term, width):
        self.term, self.width = term, width


def canon(pcs, run):
    """pieces (literals / NumTok) -> canonical list of literals and Num groups.
       {x} {x:d} -> Num(x,1);  {x:0N} -> Num(x,N);  {v:.3f} -> Num(R div 1000,1) '.' Num(R mod 1000,3) with R an integer nearest
       to 1000*v (either neighbour at an exact tie).  Anything else is not modelled (NotImplementedError)."""
    out = []
    for p in pcs:
        if isinstance(p, str):
            if out and isinstance(out[-1], str):
                out[-1] += p
            else:
                out.append(p)
            continue
        spec, v = p.spec, p.num
        if spec in ("", "d") and isinstance(v, (SymInt, int)):
            out.append(Num(_int_term(v), 1))
        elif len(spec) == 2 and spec[0] == "0" and spec[1].isdigit() and isinstance(v, (SymInt, int)):
            out.append(Num(_int_term(v), int(spec[1])))
        elif spec == ".3f":
            q = SymQ.of(v)
            memo = run.notes.setdefault("_milli", {})
            key = (str(z3.simplify(q.num)), q.den)       # the same value is rendered the same way
            if key in memo:
                R = memo[key]
            else:
                R = memo[key] = run.fresh_int("milli")
                run.assume(z3.And(2 * (R * q.den - 1000 * q.num) <= q.den, 2 * (1000 * q.num - R * q.den) <= q.den))
            out.append(Num(R / 1000, 1))
            out.append(".")
            out.append(Num(R % 1000, 3))
        else:
            raise NotImplementedError("format spec %r of %r" % (spec, type(v).__name__))
    return out


def canon_equal(a, b):
    """z3 Bool: two canonical texts render identically (non-negative numbers)"""
    if len(a) != len(b):
        return z3.BoolVal(False)
    parts = []
    for x, y in zip(a, b):
        if isinstance(x, str) or isinstance(y, str):
            if x != y:
                return z3.BoolVal(False)
            continue
        w = max(x.width, y.width)
        same_w = z3.BoolVal(x.width == y.width) if x.width == y.width else (x.term >= 10 ** (w - 1))
        parts.append(z3.And(x.term == y.term, same_w, x.term >= 0))
    return z3.And(parts) if parts else z3.BoolVal(True)


def text_pieces(s):
    """formatted result (real str with tokens, or SymStr) -> list of literal strs and (term-holder, spec)"""
    if isinstance(s, str):
        s = from_token_str(s) if has_token(s) else SymStr(tuple(s))
    return pieces(s)


class Check(CheckBase):
    pid = "C20"
    title = "text helpers"
    bounds = {"quick": {"xml_escape": "strings of length 0..4, each character any XML-legal code point (#x9 | #xA | #xD | #x20-#xD7FF | #xE000-#xFFFD | #x10000-#x10FFFF), symbolic",
                        "format_hms": "0 <= duration <= 10^7 s: integer milliseconds, milliseconds with two decimals (j/100), seconds = k/1000, and integer seconds (all symbolic)"},
              "thorough": {"xml_escape": "length 0..5, same alphabet", "format_hms": "as quick"}}
    outside = ["characters XML forbids; the XML parser itself (the reference reader - line-end and attribute-value normalisation, predefined entities, character references - is validated against lxml and ElementTree in element content and both attribute quotings on every run)",
               "C-level rendering of the format specs .3f / 02 / d (tokens carry term + spec)", "float durations that are not multiples of 1 ms; binary64 rounding of duration/1000.0"]
    stubs = ["str.format of a symbolic number -> token (term, spec)", "reference XML reader (checks/c20.py:xml_read_ref)"]

    def functions_encoded(self):
        return loader.encoded("text_utils", ["xml_escape", "format_hms"])

    def cases(self, tier):
        cs = [{"label": "xml/L%d" % n, "kind": "xml", "n": n, "split_depth": 8 if n >= 4 else None} for n in range(0, 5 if tier == "quick" else 6)]
        # long texts, one free character: every position but one is pinned to a special character (the five in turn), the remaining
        # one ranges over all XML-legal characters.  A specialisation that reaches lengths (and numbers of special characters) the
        # fully symbolic cases cannot, e.g. a cap on the number of substitutions.
        for n, ks in (((10, (0, 5, 9)),) if tier == "quick" else ((9, (0, 4, 8)), (10, (0, 5, 9)), (12, (0, 6, 11)), (16, (0, 8, 15)), (24, (0, 12, 23)))):
            for k in ks:
                cs.append({"label": "xml/long/k%d/L%d" % (k, n), "kind": "xml", "n": n, "free": k})
        for m in ("ms", "s-milli", "s-int", "ms-vs-s", "ms-frac", "ms-frac-vs-s"):
            cs.append({"label": "hms/" + m, "kind": "hms", "mode": m})
        return cs

    def config(self, tier, case):
        return engine.Config(max_decisions=400)

    def expected_reach(self, tier):
        return ["xml", "hms:<10", "hms:seconds", "hms:minutes", "hms:hours", "hms:ms-vs-s"]

    def harness(self, run, case):
        tu = load()
        if case["kind"] == "xml":
            cs = []
            for i in range(case["n"]):
                c = run.fresh_int("c%d" % i)
                run.inputs["c%d" % i] = c
                # any XML-legal character (XML 1.0 production [2] Char), as a code point
                run._add(z3.Or(c == 9, c == 10, c == 13, z3.And(c >= 0x20, c <= 0xD7FF), z3.And(c >= 0xE000, c <= 0xFFFD),
                               z3.And(c >= 0x10000, c <= 0x10FFFF)))
                if "free" in case and i != case["free"]:
                    run._add(c == ord("&<>\"'"[i % 5]))
                cs.append(c)
            s = SymStr(cs)
            try:
                out = tu.xml_escape(s)
            except Exception as ex:
                run.prove("xml_escape:executable-on-symbolic-text", z3.BoolVal(False), info={"raised": repr(ex)[:200]}, soft=True)
                return
            run.reach("xml")
            if isinstance(out, str):
                out = SymStr(tuple(out))
            run.prove("xml_escape:no-bare-special-characters", tb(zand(z3.Not(tb(zor(ch_eq(c, x) for x in "<>\"'"))) for c in out.e)) if len(out.e) else z3.BoolVal(True))
            # known finding (listed in known_findings.json): TAB / LF / CR are left bare and are changed by the parser's
            # line-end and attribute-value normalisation; identified by the input containing one of those characters
            ws = z3.Or([z3.Or(c == 9, c == 10, c == 13) for c in cs]) if cs else z3.BoolVal(False)
            ex = [("C20-xml-whitespace", ws)] if "C20-xml-whitespace" in active_findings(self.pid) else []
            for context in ("content", "attr"):
                back = xml_read_ref(out, context)
                if back is None:
                    run.prove("xml_escape:every-ampersand-starts-a-reference", z3.BoolVal(False), info={"escaped": repr(out)}, exclude=ex)
                    return
                run.prove("xml_escape:parser-reads-back-the-original/" + context, tb(back.eq_term(s)), info={"escaped": repr(out)}, exclude=ex)
            return
        mode = case["mode"]
        if mode in ("ms-vs-s", "ms-frac-vs-s"):
            if mode == "ms-vs-s":
                k = run.int("ms", 0, DMAX * 1000)
                a = tu.format_hms(k, True)
                b = tu.format_hms(SymQ(k.t, 1000, "f", bound=DMAX), False)
            else:
                k = run.int("ms_x100", 0, DMAX * 100000)     # a float number of milliseconds with two decimals
                a = tu.format_hms(SymQ(k.t, 100, "f", bound=DMAX * 1000), True)
                b = tu.format_hms(SymQ(k.t, 100000, "f", bound=DMAX), False)
            run.reach("hms:ms-vs-s")
            ca, cb = canon(text_pieces(a), run), canon(text_pieces(b), run)
            run.prove("format_hms:milliseconds-same-text-as-seconds", canon_equal(ca, cb), info={"ms": a, "s": b})
            return
        if mode == "ms":
            k = run.int("ms", 0, DMAX * 1000)
            d_num, d_den = k.t, 1000
            text = tu.format_hms(k, True)
        elif mode == "ms-frac":
            k = run.int("ms_x100", 0, DMAX * 100000)
            d_num, d_den = k.t, 100000
            text = tu.format_hms(SymQ(k.t, 100, "f", bound=DMAX * 1000), True)
        elif mode == "s-milli":
            k = run.int("ms", 0, DMAX * 1000)
            d_num, d_den = k.t, 1000
            text = tu.format_hms(SymQ(k.t, 1000, "f", bound=DMAX))
        else:
            k = run.int("s", 0, DMAX)
            d_num, d_den = k.t, 1
            text = tu.format_hms(k)
        tag = "format_hms/" + mode
        ct = canon(text_pieces(text), run)
        shape = "".join(p if isinstance(p, str) else "{%d}" % p.width for p in ct)
        nums = [p for p in ct if isinstance(p, Num)]
        under10 = d_num < 10 * d_den
        if run.branch(under10):
            run.reach("hms:<10")
            # printed to the millisecond: the digits encode an integer R nearest to 1000*d
            R = run.fresh_int("R")
            run.assume(z3.And(2 * (R * d_den - 1000 * d_num) <= d_den, 2 * (1000 * d_num - R * d_den) <= d_den))
            want = [Num(R / 1000, 1), ".", Num(R % 1000, 3), " Seconds"]
            ok = shape == "{1}.{3} Seconds"
            # at an exact tie either neighbour is accepted: compare through the defining property instead of equality with R
            if ok:
                tot = nums[0].term * 1000 + nums[1].term
                run.prove(tag + ":under-10s-printed-to-the-millisecond",
                          z3.And(nums[1].term >= 0, nums[1].term <= 999, nums[0].term >= 0,
                                 2 * (tot * d_den - 1000 * d_num) <= d_den, 2 * (1000 * d_num - tot * d_den) <= d_den), info={"text": shape})
            else:
                run.prove(tag + ":under-10s-printed-to-the-millisecond", z3.BoolVal(False), info={"text": shape})
            return
        r = run.fresh_int("r")
        run.assume(z3.And(2 * (r * d_den - d_num) <= d_den, 2 * (d_num - r * d_den) <= d_den))
        vals = [n_.term for n_ in nums]
        if shape == "{2} Seconds":
            run.reach("hms:seconds")
            run.prove(tag + ":seconds-form", z3.And(r < 60, _nearest(vals[0], d_num, d_den), vals[0] < 60, vals[0] >= 0), info={"text": shape})
        elif shape == "{1}:{2} (Minutes, seconds)":
            run.reach("hms:minutes")
            m, s_ = vals
            tot = m * 60 + s_
            run.prove(tag + ":minutes-form", z3.And(_nearest(tot, d_num, d_den), tot >= 60, tot < 3600, s_ >= 0, s_ <= 59, m >= 0), info={"text": shape})
        elif shape == "{1}:{2}:{2} (Hours, minutes, seconds)":
            run.reach("hms:hours")
            h, m, s_ = vals
            tot = h * 3600 + m * 60 + s_
            run.prove(tag + ":hours-form", z3.And(_nearest(tot, d_num, d_den), tot >= 3600, s_ >= 0, s_ <= 59, m >= 0, m <= 59, h >= 0), info={"text": shape})
        else:
            run.prove(tag + ":known-text-form", z3.BoolVal(False), info={"text": shape})

    # ------------------------------------------------------------------------------------------------
    def replay(self, cex):
        tu = loader.native("text_utils")
        i = cex["inputs"]
        label = cex["case"]
        if label.startswith("xml"):
            n = int(label.split("L")[1])
            s = "".join(chr(int(i["c%d" % k])) for k in range(n))
            try:
                out = tu.xml_escape(s)
            except Exception as ex:
                return {"input": s, "raised": repr(ex)}
            bad = any(c in out for c in "<>\"'")
            if bad:
                return {"input": s, "escaped": out, "bare_special_character": True}
            # through two real XML parsers, in element content and both attribute quotings
            from lxml import etree
            import xml.etree.ElementTree as ET
            for pname, parse, err in (("lxml", etree.fromstring, etree.XMLSyntaxError), ("ElementTree", ET.fromstring, ET.ParseError)):
                for ctx, doc, get in (("content", "<a>%s</a>" % out, lambda r: r.text or ""), ("attr", '<a b="%s"/>' % out, lambda r: r.get("b")),
                                      ("attr", "<a b='%s'/>" % out, lambda r: r.get("b"))):
                    try:
                        got = get(parse(doc))
                    except err as ex:
                        return {"input": s, "escaped": out, "parser": pname, "error": repr(ex)}
                    if got != s:
                        return {"input": s, "escaped": out, "placed_in": ctx, "parser": pname, "read_back": got}
            return None
        mode = label.split("/")[1]
        from fractions import Fraction
        import re

        def expected(ms):
            d = Fraction(ms) / 1000
            if d < 10:
                return ["%.3f Seconds" % float(d)]
            lo = int(d)
            cands = [lo] if d - lo < Fraction(1, 2) else [lo + 1] if d - lo > Fraction(1, 2) else [lo, lo + 1]
            outs = []
            for r in cands:
                if r < 60:
                    outs.append("%02d Seconds" % r)
                elif r < 3600:
                    outs.append("%d:%02d (Minutes, seconds)" % divmod(r, 60))
                else:
                    outs.append("%d:%02d:%02d (Hours, minutes, seconds)" % (r // 3600, (r % 3600) // 60, r % 60))
            return outs
        if mode in ("ms-frac", "ms-frac-vs-s"):
            j = int(i["ms_x100"])
            msf = j / 100.0
            a, b = tu.format_hms(msf, True), tu.format_hms(msf / 1000.0)
            if mode == "ms-frac-vs-s":
                return None if a == b else {"ms": msf, "format_hms(ms, True)": a, "format_hms(ms/1000.0)": b}
            d = Fraction(j, 100000)
            if d < 10:
                return None if a == "%.3f Seconds" % (msf / 1000.0) else {"call": "format_hms(%r, True)" % msf, "got": a, "expected": "%.3f Seconds" % (msf / 1000.0)}
            return None if a in expected(Fraction(j, 100)) else {"call": "format_hms(%r, True)" % msf, "got": a, "expected": expected(Fraction(j, 100))}
        if mode == "s-int":
            s = int(i["s"])
            got = tu.format_hms(s)
            return None if got in expected(s * 1000) else {"call": "format_hms(%d)" % s, "got": got, "expected": expected(s * 1000)}
        ms = int(i["ms"])
        if mode == "ms":
            got = tu.format_hms(ms, True)
            return None if got in expected(ms) else {"call": "format_hms(%d, True)" % ms, "got": got, "expected": expected(ms)}
        if mode == "s-milli":
            got = tu.format_hms(ms / 1000.0)
            return None if got in expected(ms) else {"call": "format_hms(%r)" % (ms / 1000.0), "got": got, "expected": expected(ms)}
        a, b = tu.format_hms(ms, True), tu.format_hms(ms / 1000.0)
        return None if a == b else {"ms": ms, "format_hms(ms, True)": a, "format_hms(ms/1000.0)": b}

    def validate(self, tier, seed):
        """(1) reference XML reader (line-end and attribute-value normalisation, predefined entities, character references) ==
        lxml == ElementTree on concrete strings in element content and both attribute quotings;
        (2) shim-loaded xml_escape on constant symbolic strings == native; (3) token decoding of format_hms == native text."""
        import random
        from lxml import etree
        rnd = random.Random(seed)
        tu_n = loader.native("text_utils")
        n = 0
        import xml.etree.ElementTree as ET
        samples = ["", "a&b", "&amp;", "<x>", "\"q\"", "it's", "&lt;&gt;", "AT&amp;T", "&#38;", "a;b&;", "&apos", "a\tb", "a\nb", "a\rb", "a\r\nb",
                   "\r", "\t\n", "x\r\r\ny", "\U0001F58A pen", "\u00e9\u4e2d"]
        alpha = XML_ALPHA + "\t\n\r\u00e9\U00010000"
        for _ in range(60):
            samples.append("".join(rnd.choice(alpha) for _ in range(rnd.randint(0, 8))))
        # documents that use numeric character references (what a whitespace-preserving escaper would emit)
        raw_docs = ["a&#9;b", "a&#10;b&#13;c", "&#x9;&#xA;&#xD;", "x&#13;&#10;y", "&#38;&#60;", "&#x1F58A;", "a\r&#13;\nb"]
        for s in samples:
            esc = tu_n.xml_escape(s)
            for ctx, doc, get in (("content", "<a>%s</a>" % esc, lambda r: r.text or ""), ("attr", '<a b="%s"/>' % esc, lambda r: r.get("b")),
                                  ("attr", "<a b='%s'/>" % esc, lambda r: r.get("b"))):
                ref = xml_read_py(esc, ctx)
                assert get(etree.fromstring(doc)) == ref, "reference reader disagrees with lxml on %r (%s)" % (esc, ctx)
                assert get(ET.fromstring(doc)) == ref, "reference reader disagrees with ElementTree on %r (%s)" % (esc, ctx)

            def hx(run):
                g = load().xml_escape(SymStr(tuple(s)))
                return g.concretize() if isinstance(g, SymStr) else g
            got = run_pinned(hx)
            assert got == esc, "translator validation failed for xml_escape(%r): %r vs %r" % (s, got, esc)
            for ctx in ("content", "attr"):
                def hb(run):
                    b = xml_read_ref(SymStr(tuple(esc)), ctx)
                    return b.concretize() if b is not None else None
                assert run_pinned(hb) == xml_read_py(esc, ctx), "symbolic and concrete reference readers differ on %r (%s)" % (esc, ctx)
            n += 1
        for raw in raw_docs:
            for ctx, doc, get in (("content", "<a>%s</a>" % raw, lambda r: r.text or ""), ("attr", '<a b="%s"/>' % raw, lambda r: r.get("b"))):
                ref = xml_read_py(raw, ctx)
                assert get(etree.fromstring(doc)) == ref, "reference reader disagrees with lxml on %r (%s)" % (raw, ctx)
                assert get(ET.fromstring(doc)) == ref, "reference reader disagrees with ElementTree on %r (%s)" % (raw, ctx)

                def hb2(run):
                    b = xml_read_ref(SymStr(tuple(raw)), ctx)
                    return b.concretize() if b is not None else None
                assert run_pinned(hb2) == ref
            n += 1
        # the symbolic regular-expression engine (used when code hands the symbolic string to re) against CPython's re
        import re as real_re
        from pysx.reshim import ReShim
        rs = ReShim()
        pats = [r"&(?!(?:amp|lt|gt|quot|apos);)", r"a+b", r"(a|b)*c", r"[0-9]+", r"\s*,\s*", r"[^<>&]", r"a*?b", r"(\d+)\.(\d+)", r"^ab", r"b$"]
        for pat in pats:
            for _ in range(12):
                subj = "".join(rnd.choice("ab&;mplt gquos<>01,.c") for _ in range(rnd.randint(0, 7)))
                want = real_re.sub(pat, "Z", subj)

                def hr(run):
                    g = rs.sub(pat, "Z", SymStr([z3.IntVal(ord(ch)) for ch in subj]))
                    return g if isinstance(g, str) else g.concretize()
                assert run_pinned(hr) == want, "regex engine disagrees with re on %r / %r" % (pat, subj)
                n += 1
        for ms in [0, 1, 9999, 10000, 10499, 10501, 59499, 59501, 59999, 60000, 3599499, 3599501, 3600000, 86399999, 10 ** 10] + \
                [rnd.randint(0, 10 ** 7) * 1000 + rnd.choice([0, 1, 250, 499, 501, 999]) for _ in range(30)]:
            exp = tu_n.format_hms(ms, True)

            def h(run):
                text = load().format_hms(SymInt(z3.IntVal(ms), bound=ms), True)
                out = ""
                for p in text_pieces(text):
                    if isinstance(p, str):
                        out += p
                    else:
                        v = p.num
                        from pysx.harness import concrete
                        out += format(float(concrete(v)) if p.spec.endswith("f") else int(concrete(v)), p.spec)
                return out
            try:
                got = run_pinned(h)
            except NotPinned:
                continue          # the text depends on a rounding direction the model leaves open
            assert got == exp, "translator validation failed for format_hms(%d, True): %r vs %r" % (ms, got, exp)
            n += 1
        return n


def _int_term(v):
    if isinstance(v, SymInt):
        return v.t
    if isinstance(v, int):
        return z3.IntVal(v)
    return None


def _eq(a, b):
    qa, qb = SymQ.of(a), SymQ.of(b)
    return qa.num * qb.den == qb.num * qa.den


def _eq_q(v, num, den):
    q = SymQ.of(v)
    return q.num * den == num * q.den


def _nearest(total, num, den):
    return z3.And(2 * (total * den - num) <= den, 2 * (num - total * den) <= den)


if __name__ == "__main__":
    main(Check())
