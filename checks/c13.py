"""C13 - grid index: nearest() returns a live path end that no neighbouring end beats.

spatial_grid.Index.__init__ / find_adjacents / nearest / remove_path (with plot_utils.square_dist) are
executed on paths whose end points are unbounded symbolic reals, for concrete grid sizes, both reversal
settings and every subset of removed paths.  On each path (one per combination of bin assignments and
distance comparisons) the construction invariant and the nearest() contract are proved: bin
membership by the half-open cell rule restated independently, and "no live end in the 3x3 neighbourhood
of the query's cell (or anywhere, when the neighbourhood is empty) is strictly closer than the result"."""
import itertools
import random
from fractions import Fraction
import math

import z3

from pysx import engine, loader, shims
from pysx.harness import CheckBase, main, run_pinned
from pysx.values import SymReal


def load():
    ov = shims.std_overrides(real_tower=True)
    pu = loader.load_plotink("plot_utils", ov)
    return loader.load_plotink("spatial_grid", dict(ov, plot_utils=pu), siblings={"plot_utils": pu})


def zmin(xs):
    m = xs[0]
    for x in xs[1:]:
        m = z3.If(x < m, x, m)
    return m


def zmax(xs):
    m = xs[0]
    for x in xs[1:]:
        m = z3.If(x > m, x, m)
    return m


def cell_is(u_num, bs, k, B):
    """clamped floor(u_num / bs) == k, bs > 0, written without division"""
    lo = z3.BoolVal(True) if k == 0 else (u_num >= k * bs)
    hi = z3.BoolVal(True) if k == B - 1 else (u_num < (k + 1) * bs)
    return z3.And(lo, hi)


class Check(CheckBase):
    pid = "C13"
    title = "grid index nearest()"
    bounds = {"quick": {"paths": "path ends (starts, plus ends when reversal is on) <= 2: n<=2 without reversal, n=1 with", "bins per side": "1, 2, 3; and 4 with two paths, nothing removed",
                        "removals": "every subset of the paths removed before the query", "coordinates": "unbounded symbolic reals, non-zero total extent",
                        "query": "symbolic point anywhere (inside or outside the grid)"},
              "thorough": {"paths": "as quick, plus bins = 4 (3 and 4 path ends need ~50 s per obligation and did not finish in 3 h: not included)",
                           "bins per side": "1..4", "removals": "every subset", "coordinates": "as quick", "query": "as quick"}}
    outside = ["binary64 rounding in the bin computation (exact-real model)", "zero-extent inputs (all ends coincide): division by a zero bin size",
               "removing the same path twice", "more path ends / bins than the bound"]
    stubs = ["min/max as If-terms; math.floor as a cross-multiplied symbolic floor concretised by solver-guided forking"]
    assumptions = ["total extent (x-range + y-range of the indexed ends) > 0"]

    def functions_encoded(self):
        d = loader.encoded("spatial_grid", ["__init__", "find_adjacents", "nearest", "remove_path"])
        d.update(loader.encoded("plot_utils", ["square_dist"]))
        return d

    def cases(self, tier):
        cs = []
        combos = []
        if tier == "quick":
            for B in (1, 2, 3):
                combos += [(1, B, False), (2, B, False), (1, B, True)]
        else:
            for B in (1, 2, 3):
                combos += [(1, B, False), (2, B, False), (1, B, True)]
            combos += [(2, 4, False), (1, 4, True)]
        for n, B, rev in combos:
            for removed in itertools.chain.from_iterable(itertools.combinations(range(n), r) for r in range(n + 1)):
                cs.append({"label": "n%d/B%d/%s/rm%s" % (n, B, "rev" if rev else "fwd", "".join(map(str, removed)) or "-"),
                           "n": n, "B": B, "rev": rev, "removed": list(removed), "split_depth": 8 if n * (2 if rev else 1) >= 2 and B >= 2 else None})
                if not removed and n * (2 if rev else 1) == 2:
                    cs.append(dict(cs[-1], label=cs[-1]["label"] + "/after-another-index", prior=True))
        if tier == "quick":
            # one 4 x 4 grid case (nothing removed): the first size at which cells exist that are neither in the query's
            # neighbourhood nor adjacent to it (the fallback search over 'all other cells' has more than one ring to cover)
            cs.append({"label": "n2/B4/fwd/rm-", "n": 2, "B": 4, "rev": False, "removed": [], "split_depth": 8})
        return cs

    def config(self, tier, case):
        return engine.Config(logic="QF_NRA", fresh_feas=True, max_decisions=600, ob_rlimit=400_000_000)

    def expected_reach(self, tier):
        return ["none-left", "found-in-neighbourhood", "found-by-fallback"]

    def harness(self, run, case):
        sg = load()
        n, B, rev = case["n"], case["B"], case["rev"]
        verts, flat = [], []
        for i in range(n):
            s = [run.real("p%d_sx" % i), run.real("p%d_sy" % i)]
            e = [run.real("p%d_ex" % i), run.real("p%d_ey" % i)]
            verts.append([s, e])
        # ends that are indexed: id i = start of path i; id n+i = end of path i (only with reversal)
        ends = {i: verts[i][0] for i in range(n)}
        if rev:
            ends.update({n + i: verts[i][1] for i in range(n)})
        xs = [p[0].t for p in ends.values()]
        ys = [p[1].t for p in ends.values()]
        ext = (zmax(xs) - zmin(xs)) + (zmax(ys) - zmin(ys))
        run.assume(ext > 0)
        q = [run.real("qx"), run.real("qy")]
        if case.get("prior"):
            # another index of the same size, built and queried earlier in the same interpreter (every cell probed)
            other = sg.Index([[[0, 0], [1, 1]], [[10, 10], [9, 9]]], B, rev)
            for cx in range(B):
                for cy in range(B):
                    other.nearest([0.1 + 10.0 * cx / B, 0.1 + 10.0 * cy / B])
            other.remove_path(0)
            other.nearest([5, 5])
        try:
            idx = sg.Index(verts, B, rev)
        except ZeroDivisionError:
            run.prove("construction:no-division-by-zero", z3.BoolVal(False))
            return
        # ---- construction invariant ----------------------------------------------------------------------------
        shim = ext / 200
        gx0, gy0 = zmin(xs) - shim, zmin(ys) - shim
        bsx = ((zmax(xs) + shim) - gx0) / B
        bsy = ((zmax(ys) + shim) - gy0) / B
        where = {}
        ok_struct = len(idx.grid) == B * B and len(idx.lookup) == len(ends)
        for c, cell in enumerate(idx.grid):
            for eid in cell:
                if eid in where or eid not in ends:
                    ok_struct = False
                where[eid] = c
        ok_struct = ok_struct and set(where) == set(ends) and all(idx.lookup[e] == c for e, c in where.items())
        run.prove("invariant:every-end-in-exactly-one-cell-and-lookup-agrees", z3.BoolVal(bool(ok_struct)))
        if not ok_struct:
            return
        for eid, c in where.items():
            cx, cy = c % B, c // B
            p = ends[eid]
            run.prove("invariant:cell-contains-the-vertex", z3.And(cell_is(p[0].t - gx0, bsx, cx, B), cell_is(p[1].t - gy0, bsy, cy, B)),
                      info={"end": eid, "cell": c})
        adj_ok = len(idx.adjacents) == B * B
        for c in range(B * B):
            want = {x + B * y for x in range(B) for y in range(B) if abs(x - c % B) <= 1 and abs(y - c // B) <= 1}
            adj_ok = adj_ok and set(idx.adjacents[c]) == want and len(idx.adjacents[c]) == len(want)
        run.prove("invariant:adjacency-is-the-3x3-neighbourhood", z3.BoolVal(bool(adj_ok)))
        # ---- removals ------------------------------------------------------------------------------------------
        for r_ in case["removed"]:
            idx.remove_path(r_)
        live = {e: p for e, p in ends.items() if (e % n if n else 0) not in case["removed"]} if n else {}
        grid_ids = sorted(e for cell in idx.grid for e in cell)
        run.prove("removal:exactly-the-removed-path-ends-are-gone", z3.BoolVal(grid_ids == sorted(live)))
        # ---- nearest ----------------------------------------------------------------------------------------------
        res = idx.nearest(q)
        if not live:
            run.reach("none-left")
            run.prove("nearest:None-iff-nothing-left", z3.BoolVal(res is None))
            return
        okres = isinstance(res, int) and not isinstance(res, bool) and res in live
        run.prove("nearest:returns-a-live-end-identifier", z3.BoolVal(bool(okres)), info={"returned": repr(res)})
        if not okres:
            return

        def d2(p):
            dx, dy = q[0].t - p[0].t, q[1].t - p[1].t
            return dx * dx + dy * dy
        dres = d2(live[res])
        # neighbourhood membership of each live end, from the restated cell rule (all cell pairs enumerated)
        ux, uy = q[0].t - gx0, q[1].t - gy0

        def in_nbhd(p):
            ex, ey = p[0].t - gx0, p[1].t - gy0
            alts = []
            for kq in range(B):
                for ke in range(B):
                    if abs(kq - ke) <= 1:
                        alts.append((kq, ke))
            xok = z3.Or([z3.And(cell_is(ux, bsx, kq, B), cell_is(ex, bsx, ke, B)) for kq, ke in alts])
            yok = z3.Or([z3.And(cell_is(uy, bsy, kq, B), cell_is(ey, bsy, ke, B)) for kq, ke in alts])
            return z3.And(xok, yok)
        nb = {e: in_nbhd(p) for e, p in live.items()}
        any_nb = z3.Or(list(nb.values()))
        m = run.model
        tagged = False
        for e, p in live.items():
            run.prove("nearest:no-neighbourhood-end-is-strictly-closer", z3.Implies(nb[e], dres <= d2(p)), info={"result": res, "other": e})
            run.prove("nearest:global-minimum-when-neighbourhood-is-empty", z3.Implies(z3.Not(any_nb), dres <= d2(p)), info={"result": res, "other": e})
            # corollary of the statement: an end within one cell width of an in-grid query is never strictly closer than the result
            ingrid = z3.And(ux >= 0, ux <= B * bsx, uy >= 0, uy <= B * bsy)
            near = z3.And(z3.If(p[0].t >= q[0].t, p[0].t - q[0].t, q[0].t - p[0].t) < bsx, z3.If(p[1].t >= q[1].t, p[1].t - q[1].t, q[1].t - p[1].t) < bsy)
            run.prove("nearest:true-nearest-within-one-cell-width", z3.Implies(z3.And(ingrid, near), dres <= d2(p)), info={"result": res, "other": e})
        r_, mm = run.check_sat([any_nb])
        run.reach("found-in-neighbourhood" if r_ == "sat" else "found-by-fallback")
        r2, _m2 = run.check_sat([z3.Not(any_nb)])
        if r2 == "sat":
            run.reach("found-by-fallback")

    # ------------------------------------------------------------------------------------------------
    def replay(self, cex):
        sg = loader.native("spatial_grid")
        case = next(c for c in self.cases("thorough") + self.cases("quick") if c["label"] == cex["case"])
        n, B, rev = case["n"], case["B"], case["rev"]
        i = cex["inputs"]
        F = Fraction
        verts = [[[F(i["p%d_sx" % k]), F(i["p%d_sy" % k])], [F(i["p%d_ex" % k]), F(i["p%d_ey" % k])]] for k in range(n)]
        q = [F(i["qx"]), F(i["qy"])]
        ends = {k: verts[k][0] for k in range(n)}
        if rev:
            ends.update({n + k: verts[k][1] for k in range(n)})
        if case.get("prior"):
            other = sg.Index([[[0, 0], [1, 1]], [[10, 10], [9, 9]]], B, rev)
            for cx in range(B):
                for cy in range(B):
                    other.nearest([0.1 + 10.0 * cx / B, 0.1 + 10.0 * cy / B])
            other.remove_path(0)
            other.nearest([5, 5])
        try:
            idx = sg.Index(verts, B, rev)
        except ZeroDivisionError:
            return {"vertices": str(verts), "raised": "ZeroDivisionError"}
        xs, ys = [p[0] for p in ends.values()], [p[1] for p in ends.values()]
        ext = (max(xs) - min(xs)) + (max(ys) - min(ys))
        shim = ext / 200
        gx0, gy0 = min(xs) - shim, min(ys) - shim
        bsx, bsy = (max(xs) + shim - gx0) / B, (max(ys) + shim - gy0) / B

        def cell(p):
            cx = max(0, min(B - 1, math.floor((p[0] - gx0) / bsx)))
            cy = max(0, min(B - 1, math.floor((p[1] - gy0) / bsy)))
            return cx, cy
        desc = {"vertices": [[[str(c) for c in p] for p in v] for v in verts], "bins": B, "reverse": rev, "removed": case["removed"], "query": [str(c) for c in q]}
        for e, p in ends.items():
            cx, cy = cell(p)
            if e not in idx.grid[cx + B * cy] or idx.lookup[e] != cx + B * cy or sum(e in c for c in idx.grid) != 1:
                desc.update({"end": e, "expected_cell": cx + B * cy, "grid": idx.grid, "lookup": idx.lookup})
                return desc
        for c in range(B * B):
            want = {x + B * y for x in range(B) for y in range(B) if abs(x - c % B) <= 1 and abs(y - c // B) <= 1}
            if set(idx.adjacents[c]) != want or len(idx.adjacents[c]) != len(want):
                desc.update({"cell": c, "adjacents": idx.adjacents[c]})
                return desc
        for r_ in case["removed"]:
            idx.remove_path(r_)
        live = {e: p for e, p in ends.items() if (e % n) not in case["removed"]}
        if sorted(e for c in idx.grid for e in c) != sorted(live):
            desc.update({"grid_after_removal": idx.grid})
            return desc
        res = idx.nearest(q)
        desc["returned"] = res
        if not live:
            return None if res is None else desc
        if res not in live:
            return desc

        def d2(p):
            return (q[0] - p[0]) ** 2 + (q[1] - p[1]) ** 2
        qc = cell(q)
        nb = [e for e, p in live.items() if abs(cell(p)[0] - qc[0]) <= 1 and abs(cell(p)[1] - qc[1]) <= 1]
        pool = nb if nb else list(live)
        best = min(d2(live[e]) for e in pool)
        if d2(live[res]) > best:
            desc.update({"neighbourhood_ends": nb, "distance2_of_result": str(d2(live[res])), "best_distance2": str(best)})
            return desc
        return None

    def validate(self, tier, seed):
        rnd = random.Random(seed)
        nat = loader.native("spatial_grid")
        n_ok = 0
        for _ in range(25):
            n = rnd.randint(1, 4)
            B = rnd.randint(1, 4)
            rev = rnd.random() < 0.5
            verts = [[[Fraction(rnd.randint(-9, 9), rnd.randint(1, 3)) for _ in range(2)] for _ in range(2)] for _ in range(n)]
            q = [Fraction(rnd.randint(-12, 12), 2), Fraction(rnd.randint(-12, 12), 2)]
            rm = [k for k in range(n) if rnd.random() < 0.3]
            try:
                ix = nat.Index(verts, B, rev)
            except ZeroDivisionError:
                continue
            for k in rm:
                ix.remove_path(k)
            exp = (ix.grid, ix.lookup, ix.nearest(q))

            def h(run):
                sg = load()
                sv = [[[SymReal.of(c) for c in p] for p in v] for v in verts]
                jx = sg.Index(sv, B, rev)
                for k in rm:
                    jx.remove_path(k)
                return (jx.grid, jx.lookup, jx.nearest([SymReal.of(c) for c in q]))
            got = run_pinned(h, engine.Config(logic="QF_NRA", fresh_feas=True))
            assert got == exp, "translator validation failed: %r vs %r" % (got, exp)
            n_ok += 1
        return n_ok


if __name__ == "__main__":
    main(Check())
