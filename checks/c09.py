"""C09 - vertex reduction keeps the path within tolerance of the original.

Two lemmas, composed on paper:
 L1 (predicate)  plot_utils.points_in_tolerance on n symbolic points (unbounded reals) and a symbolic
    tolerance > 0 returns True exactly when every interior point is closer than the tolerance to the
    segment first-last (division-free characterisation), does not mutate its input, and agrees with
    max_dist_from_n_points(pts) < tol (ffgeom executed symbolically too; sqrt as a fresh non-negative
    root).
 L2 (structure)  plot_utils.supersample with the predicate replaced by a memoised nondeterministic stub
    (a fresh symbolic Boolean per distinct slice): the result is an in-order subsequence of the same
    objects, keeps the first and last vertex, and every maximal deleted run is exactly the interior of
    a slice for which the stub answered True; lists of <= 2 vertices and tolerances <= 0 are untouched.
 L1 + L2: every deleted vertex is closer than tol to the segment joining its surviving neighbours."""
import random
from fractions import Fraction

import z3

from pysx import engine, loader, shims
from pysx.harness import CheckBase, main, run_pinned, concrete, test_rows
from pysx.values import SymReal, SymBool, zreal


def load(stub_pit=None):
    ov = shims.std_overrides(real_tower=True)
    ff = loader.load_dep("ink_extensions.ffgeom", ov)
    ov2 = dict(ov)
    ov2["ffgeom"] = ff
    ov2["sqrt"] = ov["math"].sqrt
    pu = loader.load_plotink("plot_utils", ov2)
    if stub_pit is not None:
        pu.points_in_tolerance = stub_pit
    return pu


def close_term(p, a, b, tol):
    """dist(p, segment ab) < tol, division-free (tol > 0)."""
    dx, dy = b[0] - a[0], b[1] - a[1]
    px, py = p[0] - a[0], p[1] - a[1]
    t = px * dx + py * dy
    L = dx * dx + dy * dy
    T = tol * tol
    pa2 = px * px + py * py
    qx, qy = p[0] - b[0], p[1] - b[1]
    pb2 = qx * qx + qy * qy
    cross = px * dy - dx * py
    return z3.Or(z3.And(t <= 0, pa2 < T), z3.And(t > 0, L <= t, pb2 < T), z3.And(t > 0, t < L, cross * cross < T * L))


def dist_py(p, a, b):
    """squared distance point-segment, exact (Fractions)"""
    dx, dy = b[0] - a[0], b[1] - a[1]
    px, py = p[0] - a[0], p[1] - a[1]
    t = px * dx + py * dy
    L = dx * dx + dy * dy
    if t <= 0:
        return px * px + py * py
    if L <= t:
        return (p[0] - b[0]) ** 2 + (p[1] - b[1]) ** 2
    cross = px * dy - dx * py
    return Fraction(cross * cross) / L


class Check(CheckBase):
    pid = "C09"
    title = "vertex reduction within tolerance"
    bounds = {"quick": {"L1": "n = 3, 4 points; all coordinates and the tolerance (> 0) unbounded symbolic reals; windows of 8 and 12 points (thorough: 5..16) with one free vertex at every interior index, the others pinned on the chord", "L2": "vertex lists of length 0..6, every sequence of predicate answers"},
              "thorough": {"L1": "n = 3, 4, 5 points", "L2": "lists of length 0..9"}}
    outside = ["binary64 rounding (exact-real model)", "lists longer than the bound (the loop's index arithmetic is uniform in the length, not proved)",
               "the composition L1 + L2 (paper argument: the stub's contract is L1)", "tolerance <= 0 for the predicate (supersample returns before using it)"]
    stubs = ["math.sqrt: fresh non-negative real root with root^2 = x", "L2: points_in_tolerance -> memoised nondeterministic stub"]
    lemmas = ["L1 predicate <=> every interior point closer than tol (restated), == max_dist_from_n_points < tol", "L2 structure of supersample under an arbitrary predicate"]
    assumptions = ["tolerance > 0 in L1"]

    def functions_encoded(self):
        d = loader.encoded("plot_utils", ["supersample", "points_in_tolerance", "max_dist_from_n_points"])
        d.update(loader.encoded_dep("ink_extensions.ffgeom", ["distanceToPoint", "perpDistanceToPoint", "length", "dot"]))
        return d

    def cases(self, tier):
        cs = []
        for n in ((3, 4) if tier == "quick" else (3, 4, 5)):
            cs.append({"label": "L1/n%d" % n, "kind": "L1", "n": n, "split_depth": 4 if n >= 4 else None})
            if n <= 4:
                cs.append({"label": "L1ref/n%d" % n, "kind": "L1ref", "n": n, "split_depth": 4 if n >= 4 else None})
        # longer windows, one free vertex: every vertex but one is pinned on the chord (i, 0), the remaining one and the tolerance
        # are symbolic.  A specialisation of L1 that stays cheap (3 unknowns) at window sizes the general case cannot reach, so a
        # predicate that skips, strides over or stops short of some interior index of a long window is still a counterexample.
        for n in ((8, 12) if tier == "quick" else range(5, 17)):
            for k in range(1, n - 1):
                cs.append({"label": "L1free/k%d/n%d" % (k, n), "kind": "L1", "n": n, "free": k})
        for m in range(0, 7 if tier == "quick" else 10):
            cs.append({"label": "L2/len%d" % m, "kind": "L2", "m": m, "split_depth": 6 if m >= 8 else None})
        cs.append({"label": "L2/tol<=0", "kind": "L2tol", "m": 4})
        # end to end with the real predicate on symbolic vertices (small lists): independent of how supersample is organised
        # (4 vertices with the real predicate were dropped from the thorough tier: 20-25 min with one obligation left
        # undecided; the contract-level case below covers 4 and 5 vertices)
        for m in (3,):
            cs.append({"label": "E2E/len%d" % m, "kind": "E2E", "m": m, "split_depth": 5})
        # ... and with the predicate summarised by its contract L1 (longer lists stay affordable)
        for m in ((4,) if tier == "quick" else (4, 5)):
            cs.append({"label": "E2C/len%d" % m, "kind": "E2C", "m": m, "split_depth": 5})
        return cs

    def config(self, tier, case):
        if case["kind"].startswith("L1") or case["kind"] in ("E2E", "E2C"):
            # staged deciding (short slice, weakening, sub-box search) only where it was needed: the contract-level case
            return engine.Config(logic="QF_NRA", fresh_feas=True, max_decisions=300, ob_rlimit=300_000_000,
                                 falsify_samples=40 if case["kind"] == "E2C" else 0)
        return engine.Config(max_decisions=400)

    def expected_reach(self, tier):
        return ["L1:True", "L1:False", "L1ref", "L2:deleted", "L2:untouched", "L2:tol<=0", "E2E:deleted", "E2E:untouched"]

    def harness(self, run, case):
        kind = case["kind"]
        if kind in ("L1", "L1ref"):
            n = case["n"]
            pu = load()
            pts = [(run.real("x%d" % i), run.real("y%d" % i)) for i in range(n)]
            tol = run.real("tol")
            run.assume(tol > 0)
            if "free" in case:
                for i_, (px, py) in enumerate(pts):
                    if i_ != case["free"]:
                        run.assume(px == i_)
                        run.assume(py == 0)
            orig = list(pts)
            res = pu.points_in_tolerance(pts, tol)
            if isinstance(res, SymBool):
                res = bool(res)          # a comparison returned unevaluated: decide it on this path (fork)
            assert isinstance(res, bool)
            a, b = [c.t for c in pts[0]], [c.t for c in pts[-1]]
            closes = [close_term([c.t for c in p], a, b, tol.t) for p in pts[1:-1]]
            if kind == "L1":
                run.reach("L1:%s" % res)
                run.prove("L1:input-not-mutated", z3.BoolVal(len(pts) == n and all(x is y for x, y in zip(pts, orig))))
                if res:
                    for k, c in enumerate(closes):
                        run.prove("L1:True-only-if-every-interior-point-is-within-tolerance", c, info={"point": k + 1})
                else:
                    run.prove("L1:False-only-if-some-interior-point-is-not-within-tolerance", z3.Not(z3.And(closes)))
                return
            # agreement with the reference measurement (executed symbolically as well)
            md = pu.max_dist_from_n_points(pts)
            run.reach("L1ref")
            run.prove("L1:agrees-with-max_dist_from_n_points", z3.BoolVal(res) == (zreal(md) < tol.t))
            return
        if kind in ("E2E", "E2C"):
            m = case["m"]
            if kind == "E2C":
                # assume-guarantee: the predicate is replaced by its contract (lemma L1, proved above for every
                # slice length used here): its answer is exactly 'every interior point is within tolerance of
                # the chord'.  Everything else supersample does runs for real on the symbolic coordinates.
                def contract(points, tolerance):
                    if len(points) < 3:
                        raise AssertionError("There must be points (other than begin/end) to check.")
                    a, b = [zreal(c) for c in points[0]], [zreal(c) for c in points[-1]]
                    t = zreal(tolerance)
                    return run.branch(z3.And([close_term([zreal(c) for c in q], a, b, t) for q in points[1:-1]]))
                pu = load(contract)
            else:
                pu = load()
            vs = [(run.real("x%d" % i), run.real("y%d" % i)) for i in range(m)]
            tol = run.real("tol")
            orig = list(vs)
            try:
                pu.supersample(vs, tol)
            except Exception as ex:
                run.prove("E2E:no-exception", z3.BoolVal(False), info={"raised": repr(ex)[:200]})
                return
            pos = {id(v): i for i, v in enumerate(orig)}
            idxs = [pos.get(id(v)) for v in vs]
            sub_ok = all(i is not None for i in idxs) and all(x < y for x, y in zip(idxs, idxs[1:]))
            run.prove("E2E:result-is-in-order-subsequence-of-the-same-objects", z3.BoolVal(bool(sub_ok)))
            if not sub_ok:
                return
            run.prove("E2E:keeps-first-and-last", z3.BoolVal(bool(idxs) and idxs[0] == 0 and idxs[-1] == m - 1))
            deleted = [i for i in range(m) if i not in idxs]
            run.reach("E2E:deleted" if deleted else "E2E:untouched")
            if deleted:
                run.prove("E2E:nothing-deleted-for-non-positive-tolerance", tol.t > 0)
            for i in deleted:
                a = max(k for k in idxs if k < i)
                b = min(k for k in idxs if k > i)
                pa, pb, pp = ([c.t for c in orig[k]] for k in (a, b, i))
                run.prove("E2E:deleted-vertex-is-within-tolerance-of-the-segment-between-its-surviving-neighbours",
                          z3.And(tol.t > 0, close_term(pp, pa, pb, tol.t)), info={"deleted": i, "between": [a, b]})
            return
        if kind == "L2tol":
            calls = []

            def never(points, tolerance):
                calls.append(1)
                return True
            pu = load(never)
            vs = [object() for _ in range(case["m"])]
            tol = run.real("tol")
            run.assume(tol <= 0)
            before = list(vs)
            pu.supersample(vs, tol)
            run.reach("L2:tol<=0")
            run.prove("L2:non-positive-tolerance-leaves-list-unchanged", z3.BoolVal(len(vs) == len(before) and all(x is y for x, y in zip(vs, before))))
            return
        m = case["m"]
        memo = {}
        log = []

        def stub(points, tolerance):
            key = tuple(id(p) for p in points)
            if key not in memo:
                memo[key] = run.branch(run.fresh_bool("pit"))
            log.append((key, memo[key]))
            if len(points) < 3:
                raise AssertionError("There must be points (other than begin/end) to check.")
            return memo[key]
        pu = load(stub)
        vs = [object() for _ in range(m)]
        orig = list(vs)
        pos = {id(v): i for i, v in enumerate(orig)}
        try:
            pu.supersample(vs, 1)
        except Exception as ex:
            run.prove("L2:no-exception", z3.BoolVal(False), info={"raised": repr(ex)[:200]}, soft=True)
            return
        idxs = [pos.get(id(v)) for v in vs]
        sub_ok = all(i is not None for i in idxs) and all(x < y for x, y in zip(idxs, idxs[1:]))
        run.prove("L2:result-is-in-order-subsequence-of-the-same-objects", z3.BoolVal(bool(sub_ok)))
        if not sub_ok:
            return
        if m <= 2:
            run.reach("L2:untouched")
            run.prove("L2:short-lists-unchanged", z3.BoolVal(idxs == list(range(m)) and not log))
            return
        run.prove("L2:keeps-first-and-last", z3.BoolVal(bool(idxs) and idxs[0] == 0 and idxs[-1] == m - 1))
        deleted_any = False
        good = True
        for x, y in zip(idxs, idxs[1:]):
            if y > x + 1:
                deleted_any = True
                key = tuple(id(orig[k]) for k in range(x, y + 1))
                if memo.get(key) is not True:
                    good = False
        run.reach("L2:deleted" if deleted_any else "L2:untouched")
        run.prove("L2:every-deleted-run-is-the-interior-of-a-slice-judged-in-tolerance", z3.BoolVal(good),
                  info={"kept": idxs, "answers": [(len(k), a) for k, a in log][:12]})

    # ------------------------------------------------------------------------------------------------
    def replay(self, cex):
        pu = loader.native("plot_utils")
        i = cex["inputs"]
        label = cex["case"]
        if label.startswith("L1"):
            n = int(label.split("n")[1])
            pts = [(Fraction(i["x%d" % k]), Fraction(i["y%d" % k])) for k in range(n)]
            tol = Fraction(i["tol"])
            before = list(pts)
            res = pu.points_in_tolerance(pts, tol)
            exp = all(dist_py(p, pts[0], pts[-1]) < tol * tol for p in pts[1:-1])
            if pts != before or res != exp:
                return {"points": [[str(c) for c in p] for p in before], "tol": str(tol), "returned": res, "expected": exp}
            md = pu.max_dist_from_n_points([(float(p[0]), float(p[1])) for p in pts])
            md2 = max(dist_py(p, pts[0], pts[-1]) for p in pts[1:-1])
            # the float reference must agree unless the exact distance is within rounding of the tolerance
            if abs(md * md - float(md2)) > 1e-9 * max(1.0, float(md2)):
                return {"points": [[str(c) for c in p] for p in before], "max_dist_from_n_points": md, "exact_distance2": str(md2)}
            return None
        if label.startswith("E2E") or label.startswith("E2C"):
            m = int(label.split("len")[1])
            pts = [(Fraction(i["x%d" % k]), Fraction(i["y%d" % k])) for k in range(m)]
            tol = Fraction(i["tol"])
            vs = list(pts)
            try:
                pu.supersample(vs, tol)
            except Exception as ex:
                return {"points": [[str(c) for c in p] for p in pts], "tol": str(tol), "raised": repr(ex)}
            desc = {"points": [[str(c) for c in p] for p in pts], "tol": str(tol), "kept": [[str(c) for c in p] for p in vs]}
            # subsequence by position (duplicates: greedy matching)
            k = 0
            kept_idx = []
            for v in vs:
                while k < m and pts[k] is not v:
                    k += 1
                if k == m:
                    return desc
                kept_idx.append(k)
                k += 1
            if not kept_idx or kept_idx[0] != 0 or kept_idx[-1] != m - 1:
                return desc
            for d in range(m):
                if d in kept_idx:
                    continue
                a = max(x for x in kept_idx if x < d)
                b = min(x for x in kept_idx if x > d)
                if tol <= 0 or not dist_py(pts[d], pts[a], pts[b]) < tol * tol:
                    desc["deleted_vertex"] = d
                    return desc
            return None
        # L2: replay the decision sequence of the path with a scripted predicate on the native function
        m = int(label.split("len")[1]) if "len" in label else 4
        if label.endswith("tol<=0"):
            vs = [(k, k) for k in range(m)]
            before = list(vs)
            pu2 = _native_with_stub(lambda pts, t: True)
            pu2.supersample(vs, Fraction(i["tol"]))
            return None if vs == before else {"tolerance": i["tol"], "result": vs}
        decisions = list(cex.get("decisions", []))
        memo, answers = {}, iter(decisions)

        def scripted(points, tolerance):
            key = tuple(points)
            if key not in memo:
                memo[key] = next(answers, True)
            if len(points) < 3:
                raise AssertionError("short slice")
            return memo[key]
        pu2 = _native_with_stub(scripted)
        vs = [(k, 0) for k in range(m)]
        try:
            pu2.supersample(vs, 1)
        except Exception as ex:
            return {"length": m, "answers": decisions, "raised": repr(ex)}
        idxs = [v[0] for v in vs]
        ok = all(x < y for x, y in zip(idxs, idxs[1:]))
        if m <= 2:
            ok = ok and idxs == list(range(m))
        else:
            ok = ok and idxs and idxs[0] == 0 and idxs[-1] == m - 1
            for x, y in zip(idxs, idxs[1:]):
                if y > x + 1 and memo.get(tuple((k, 0) for k in range(x, y + 1))) is not True:
                    ok = False
        return None if ok else {"length": m, "predicate_answers": decisions, "kept_indices": idxs}

    def validate(self, tier, seed):
        rnd = random.Random(seed)
        nat = loader.native("plot_utils")
        n_ok = 0
        for _ in range(40):
            n = rnd.randint(3, 6)
            pts = [(Fraction(rnd.randint(-8, 8), rnd.randint(1, 3)), Fraction(rnd.randint(-8, 8), rnd.randint(1, 3))) for _ in range(n)]
            if rnd.random() < 0.2:
                pts[-1] = pts[0]
            tol = Fraction(rnd.randint(1, 12), 4)
            exp = nat.points_in_tolerance(pts, tol)

            def h(run):
                pu = load()
                return pu.points_in_tolerance([(SymReal.of(x), SymReal.of(y)) for x, y in pts], SymReal.of(tol))
            got = run_pinned(h, engine.Config(logic="QF_NRA", fresh_feas=True))
            assert got == exp, "translator validation failed: %r %r -> %r vs %r" % (pts, tol, got, exp)
            n_ok += 1
        return n_ok


def _native_with_stub(fn):
    """a private copy of the native module (plain load, no shims) with the predicate replaced"""
    pu = loader.load_plotink("plot_utils")
    pu.points_in_tolerance = fn
    return pu


if __name__ == "__main__":
    main(Check())
