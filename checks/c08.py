"""C08 - segment clipping returns exactly the part of the segment inside the rectangle.

plot_utils.clip_segment / clip_code are executed symbolically on eight unbounded reals; the loop is
unrolled by the engine (the solver shows which iterations are feasible).  Obligations are non-linear
real arithmetic (QF_NRA, fresh nlsat solver per query)."""
import random
from fractions import Fraction

import z3

from pysx import engine, loader, shims
from pysx.harness import CheckBase, main, run_pinned, concrete
from pysx.values import SymReal, zreal

NAMES = ["x1", "y1", "x2", "y2", "xmin", "ymin", "xmax", "ymax"]


def load():
    return loader.load_plotink("plot_utils", shims.std_overrides(real_tower=True))


def liang_barsky(x1, y1, x2, y2, xmin, ymin, xmax, ymax):
    """Exact parameter interval [ta, tb] of the part of the segment inside the closed rectangle, or None."""
    ta, tb = Fraction(0), Fraction(1)
    dx, dy = x2 - x1, y2 - y1
    for p, q in ((-dx, x1 - xmin), (dx, xmax - x1), (-dy, y1 - ymin), (dy, ymax - y1)):
        if p == 0:
            if q < 0:
                return None
        else:
            r = Fraction(q) / p
            if p < 0:
                if r > tb:
                    return None
                ta = max(ta, r)
            else:
                if r < ta:
                    return None
                tb = min(tb, r)
    if ta > tb:
        return None
    return ta, tb


class Check(CheckBase):
    pid = "C08"
    title = "segment clipping"
    bounds = {"coordinates": "unbounded reals (8 free variables); xmin<=xmax, ymin<=ymax",
              "loop": "unrolled by feasibility: the solver shows at most 4 clips are feasible; max 400 decisions per path"}
    outside = ["binary64 rounding: the tolerance of the statement is 0 in this exact-real model",
               "the fail-safe exit (iterations > 3) is shown infeasible in exact arithmetic, its behaviour under rounding is not analysed",
               "non-finite coordinates"]
    stubs = []
    assumptions = ["xmin <= xmax", "ymin <= ymax"]

    def functions_encoded(self):
        return loader.encoded("plot_utils", ["clip_segment", "clip_code"])

    def config(self, tier, case):
        return engine.Config(logic="QF_NRA", fresh_feas=True, max_decisions=400, ob_rlimit=400_000_000)

    def cases(self, tier):
        return [{"label": "clip_segment", "split_depth": 6}, {"label": "clip_segment/after-earlier-call", "history": True, "split_depth": 6}]

    def expected_reach(self, tier):
        return ["accept:0clips", "accept:1clips", "accept:2clips", "accept:3clips", "accept:4clips", "reject"]

    def harness(self, run, case):
        pu = load()
        v = {n: run.real(n) for n in NAMES}
        run.assume(v["xmin"] <= v["xmax"])
        run.assume(v["ymin"] <= v["ymax"])
        x1, y1, x2, y2 = (v[n].t for n in NAMES[:4])
        xmin, ymin, xmax, ymax = (v[n].t for n in NAMES[4:])
        seg_in = [[v["x1"], v["y1"]], [v["x2"], v["y2"]]]
        calls = []
        orig_cc = pu.clip_code

        def counting_cc(*a):
            calls.append(1)
            return orig_cc(*a)
        pu.clip_code = counting_cc
        bounds_arg = [[v["xmin"], v["ymin"]], [v["xmax"], v["ymax"]]]
        if case.get("history"):
            # earlier calls with the same list objects (concrete values); the caller then edits them in place
            bounds_arg = [[0, 0], [10, 10]]
            seg_prior = [[-2, -4], [8, 16]]
            pu.clip_segment(seg_prior, bounds_arg)
            pu.clip_segment([[1, 1], [2, 2]], bounds_arg)
            del calls[:]
            bounds_arg[0][0], bounds_arg[0][1], bounds_arg[1][0], bounds_arg[1][1] = v["xmin"], v["ymin"], v["xmax"], v["ymax"]
        try:
            accept, seg = pu.clip_segment(seg_in, bounds_arg)
        except ZeroDivisionError:
            run.reach("zerodiv")
            run.prove("no-division-by-zero", z3.BoolVal(False))
            return
        nclips = len(calls) // 2 - 1

        def inside(px, py):
            return z3.And(px >= xmin, px <= xmax, py >= ymin, py <= ymax)
        t = run.fresh_real("t")
        px, py = x1 + t * (x2 - x1), y1 + t * (y2 - y1)
        some_inside = z3.And(t >= 0, t <= 1, inside(px, py))
        assert isinstance(accept, bool)
        if not accept:
            run.reach("reject")
            run.prove("reject:nothing-inside", z3.Not(some_inside))
            return
        run.reach("accept:%dclips" % nclips)
        ox1, oy1, ox2, oy2 = zreal(seg[0][0]), zreal(seg[0][1]), zreal(seg[1][0]), zreal(seg[1][1])
        dx, dy = x2 - x1, y2 - y1
        t1 = z3.If(dx != 0, (ox1 - x1) / dx, z3.If(dy != 0, (oy1 - y1) / dy, z3.RealVal(0)))
        t2 = z3.If(dx != 0, (ox2 - x1) / dx, z3.If(dy != 0, (oy2 - y1) / dy, z3.RealVal(1)))
        run.prove("accept:first-on-segment", z3.And(ox1 == x1 + t1 * dx, oy1 == y1 + t1 * dy))
        run.prove("accept:second-on-segment", z3.And(ox2 == x1 + t2 * dx, oy2 == y1 + t2 * dy))
        run.prove("accept:orientation", z3.And(0 <= t1, t1 <= t2, t2 <= 1))
        run.prove("accept:first-inside", inside(ox1, oy1))
        run.prove("accept:second-inside", inside(ox2, oy2))
        run.prove("accept:covers-inside-part", z3.Not(z3.And(some_inside, z3.Or(t < t1, t > t2))))

    def replay(self, cex):
        pu = loader.native("plot_utils")
        g = [Fraction(cex["inputs"][n]) for n in NAMES]
        x1, y1, x2, y2, xmin, ymin, xmax, ymax = g
        try:
            if "after-earlier-call" in (cex.get("case") or ""):
                b = [[0, 0], [10, 10]]
                pu.clip_segment([[-2, -4], [8, 16]], b)
                pu.clip_segment([[1, 1], [2, 2]], b)
                b[0][0], b[0][1], b[1][0], b[1][1] = xmin, ymin, xmax, ymax
                accept, seg = pu.clip_segment([[x1, y1], [x2, y2]], b)
            else:
                accept, seg = pu.clip_segment([[x1, y1], [x2, y2]], [[xmin, ymin], [xmax, ymax]])
        except ZeroDivisionError as e:
            return {"raised": "ZeroDivisionError", "args": [str(x) for x in g]}
        iv = liang_barsky(*g)
        if iv is None:
            if accept:
                return {"accept": True, "expected": "reject (nothing inside)", "segment": str(seg)}
            return None
        if not accept:
            return {"accept": False, "expected_interval": [str(iv[0]), str(iv[1])]}
        ta, tb = iv
        exp = [[x1 + ta * (x2 - x1), y1 + ta * (y2 - y1)], [x1 + tb * (x2 - x1), y1 + tb * (y2 - y1)]]
        got = [[Fraction(c) for c in p] for p in seg]
        if (x1, y1) == (x2, y2):
            ok = got[0] == [x1, y1] and got[1] == [x1, y1]
        else:
            ok = got == exp
        if not ok:
            return {"segment": [[str(c) for c in p] for p in got], "expected": [[str(c) for c in p] for p in exp]}
        return None

    def validate(self, tier, seed):
        rnd = random.Random(seed)
        nat = loader.native("plot_utils")
        n = 0
        table = [([[-1, -2], [11, 13]], [[0, 0], [10, 10]]), ([[5, 10], [15, 5]], [[0, 0], [10, 10]]),
                 ([[1, 1], [2, 2]], [[0, 0], [10, 10]]), ([[-5, -5], [-1, -1]], [[0, 0], [10, 10]]),
                 ([[-5, 5], [15, 5]], [[0, 0], [10, 10]]), ([[5, -5], [5, 15]], [[0, 0], [10, 10]]),
                 ([[3, 3], [3, 3]], [[0, 0], [10, 10]]), ([[-1, 1], [1, -1]], [[0, 0], [10, 10]])]
        for _ in range(40):
            table.append(([[Fraction(rnd.randint(-12, 22), rnd.randint(1, 3)) for _ in range(2)] for _ in range(2)],
                          [[0, 0], [Fraction(rnd.randint(0, 10)), Fraction(rnd.randint(0, 10))]]))
        for seg, bnd in table:
            seg = [[Fraction(c) for c in p] for p in seg]
            bnd = [[Fraction(c) for c in p] for p in bnd]
            try:
                exp = nat.clip_segment(seg, bnd)
            except ZeroDivisionError:
                exp = "ZeroDivisionError"

            def h(run):
                pu = load()
                try:
                    a, s = pu.clip_segment([[SymReal.of(c) for c in p] for p in seg],
                                           [[SymReal.of(c) for c in p] for p in bnd])
                except ZeroDivisionError:
                    return "ZeroDivisionError"
                return a, [[concrete(c) for c in p] for p in s]
            got = run_pinned(h, engine.Config(logic="QF_NRA", fresh_feas=True))
            if exp != "ZeroDivisionError":
                exp = (exp[0], [[Fraction(c) for c in p] for p in exp[1]])
            assert got == exp, "translator validation failed on %r: %r vs %r" % ((seg, bnd), got, exp)
            n += 1
        return n


if __name__ == "__main__":
    main(Check())
