"""C15 - firmware version gating uses numeric version order and blocks unsupported boards.

The reported version is a symbolic string of digits (component lengths enumerated, digits symbolic)
inside the real banner text.  packaging.version.parse is replaced by a reference parser that yields
integer terms (validated against packaging each run), so what is decided about plotink is whether both
layers *delegate to a numeric comparison* and gate on it: a string comparison in the code would run on
the symbolic characters and the solver would return e.g. 2.10.0 vs 2.9.9."""
import itertools

import serial
import z3
from packaging.version import InvalidVersion, parse as pk_parse

from pysx import engine, loader, stack, verstub
from pysx.harness import CheckBase, main, run_pinned
from pysx.serialmodel import FakePort, legacy_conforming, future_conforming, command_name, literal_prefix
from pysx.strs import SymStr, SymBytes
from pysx.values import SymBool, SymInt

BANNER = "EBBv13_and_above EB Firmware Version "
THRESHOLDS = ["2.5.5", "2.6.0", "2.2.3", "3.0.2", "2.10.0", "2.9.9", "10.0.0"]
GATES = {"servo_timeout": ("2.6.0", "SR"), "queryVoltage": ("2.2.3", "QC"), "query_nickname": ("2.5.5", "QT"),
         "write_nickname": ("2.5.5", "ST"), "reboot": ("2.5.5", "RB")}
VKINDS = ["version", "ok", "err", "empty", "noversion"]


def sym_version(run, lens, tag):
    """digits as symbolic characters; returns (SymStr 'a.b.c', [z3 Int a, b, c])"""
    chars, nums = [], []
    for k, n in enumerate(lens):
        if k:
            chars.append(".")
        val = z3.IntVal(0)
        for i in range(n):
            c = run.fresh_int("%s_%d_%d" % (tag, k, i))
            run.inputs["%s_%d_%d" % (tag, k, i)] = c
            run._add(z3.And(c >= 48, c <= 57))
            chars.append(c)
            val = val * 10 + (c - 48)
        nums.append(val)
    return SymStr(chars), nums


def ver_ge(nums, thr):
    t = [int(x) for x in thr.split(".")]
    res = z3.BoolVal(True)
    for a, b in reversed(list(zip(nums, t))):
        res = z3.If(a > b, True, z3.If(a < b, False, res))
    return res


def model_version(inputs, tag, lens):
    return ".".join("".join(chr(int(inputs["%s_%d_%d" % (tag, k, i)])) for i in range(n)) for k, n in enumerate(lens))


def tb(x):
    return z3.BoolVal(x) if isinstance(x, bool) else (x.t if isinstance(x, SymBool) else x)


class Check(CheckBase):
    pid = "C15"
    title = "firmware version gating"
    bounds = {"quick": {"version": "three components, digit counts (1,1,1), (1,2,1), (2,1,2), (1,1,3), (1,3,1); every digit symbolic 0-9",
                        "thresholds": ", ".join(THRESHOLDS), "handshake": "each probe: empty / non-EBB text / EBB banner with symbolic version / "
                        "SerialException; Serial() may raise; enumerator may find nothing; fresh and re-used connection object; after a refusal for old firmware: a second connect() and one command on the same object",
                        "gated helpers": "V answered by: banner with symbolic version / OK / Err line / nothing / banner without version"},
              "thorough": {"version": "three components, all 27 combinations of 1-3 digits; every digit symbolic", "thresholds": ", ".join(THRESHOLDS),
                           "handshake": "as quick", "gated helpers": "as quick"}}
    outside = ["banners containing 'EBB' but no 'Firmware Version ' in connect (EBB3.min_version then compares None: TypeError; not in the statement's list of replies)",
               "versions with more than three components, pre-release tags, epochs", "non-ASCII replies"]
    stubs = ["packaging.version.parse -> reference parser for N(.N)* giving integer terms with numeric component-wise order "
             "(differentially tested against packaging on a grid incl. multi-digit components)", "serial.Serial, comports", "fake ports"]

    def functions_encoded(self):
        d = loader.encoded("ebb_serial", ["min_version", "queryVersion", "query", "query_nickname", "write_nickname", "reboot"])
        d.update(loader.encoded("ebb_motion", ["servo_timeout", "queryVoltage"]))
        d.update(loader.encoded("ebb3_serial", ["parse_version", "min_version", "connect", "_get_port_name", "find_first", "disconnect", "query_nickname"]))
        return d

    def lens(self, tier):
        if tier == "quick":
            return [(1, 1, 1), (1, 2, 1), (2, 1, 2), (1, 1, 3), (1, 3, 1)]
        return list(itertools.product((1, 2, 3), repeat=3))

    def cases(self, tier):
        cs = []
        for ln in self.lens(tier):
            ls = "".join(map(str, ln))
            for thr in THRESHOLDS:
                cs.append({"label": "min_version/legacy/%s/%s" % (ls, thr), "kind": "mv", "layer": "legacy", "lens": ln, "thr": thr})
                cs.append({"label": "min_version/ebb3/%s/%s" % (ls, thr), "kind": "mv", "layer": "ebb3", "lens": ln, "thr": thr})
            for g in GATES:
                cs.append({"label": "gate/%s/%s/version" % (g, ls), "kind": "gate", "helper": g, "lens": ln, "vkind": "version"})
                if ln in ((1, 1, 1), (1, 2, 1)):
                    cs.append({"label": "gate/%s/%s/version/after-another-board-on-the-same-port" % (g, ls), "kind": "gate", "helper": g,
                               "lens": ln, "vkind": "version", "prior": True})
            for pre in ("fresh", "reused"):
                cs.append({"label": "connect/%s/%s" % (pre, ls), "kind": "connect", "lens": ln, "pre": pre})
        for g in GATES:
            for vk in VKINDS[1:]:
                cs.append({"label": "gate/%s/-/%s" % (g, vk), "kind": "gate", "helper": g, "lens": (1, 1, 1), "vkind": vk})
        cs.append({"label": "connect/noboard", "kind": "connect", "lens": (1, 1, 1), "pre": "noboard"})
        return cs

    def config(self, tier, case):
        return engine.Config(max_decisions=400)

    def expected_reach(self, tier):
        return ["mv:True", "mv:False", "gate:sent", "gate:blocked", "gate:blocked-no-version", "connect:ok", "connect:too-old",
                "connect:not-verified", "connect:open-failed", "connect:noboard"]

    # ------------------------------------------------------------------------------------------------
    def harness(self, run, case):
        kind = case["kind"]
        if kind == "mv":
            return self.h_min_version(run, case)
        if kind == "gate":
            return self.h_gate(run, case)
        return self.h_connect(run, case)

    def h_min_version(self, run, case):
        ver, nums = sym_version(run, case["lens"], "v")
        banner = SymStr(tuple(BANNER)) + ver + "\r\n"
        thr = case["thr"]
        if case["layer"] == "legacy":
            es, em = stack.load_legacy(extra_serial={"parse": verstub.parse_stub})

            def on_write(port, payload):
                if command_name(payload).upper() == "V":
                    port.queue.append(SymBytes(banner))
                else:
                    legacy_conforming(port, payload)
            port = FakePort(on_write=on_write, sym=True)
            res = es.min_version(port, thr)
        else:
            e3, m3 = stack.load_ebb3(extra_serial={"parse": verstub.parse_stub})
            obj = e3.EBB3()
            obj.parse_version(banner.strip())
            res = obj.min_version(thr)
        ok = res is True or res is False
        run.reach("mv:%s" % res)
        run.prove(case["label"].rsplit("/", 2)[0] + ":is-numeric-order", (z3.BoolVal(res) == ver_ge(nums, thr)) if ok else z3.BoolVal(False),
                  info={"returned": repr(res), "threshold": thr})

    def h_gate(self, run, case):
        helper, vkind = case["helper"], case["vkind"]
        thr, cmdname = GATES[helper]
        nums = None
        if vkind == "version":
            ver, nums = sym_version(run, case["lens"], "v")
            vreply = SymBytes(SymStr(tuple(BANNER)) + ver + "\r\n")
        elif vkind == "ok":
            vreply = b"OK\r\n"
        elif vkind == "err":
            vreply = b"!8 Err: unknown command\r\n"
        elif vkind == "noversion":
            vreply = b"EBBv13_and_above EB\r\n"
        else:
            vreply = None
        es, em = stack.load_legacy(extra_serial={"parse": verstub.parse_stub})

        def on_write(port, payload):
            if command_name(payload).upper() == "V":
                if vreply is not None:
                    port.queue.append(vreply)
            else:
                legacy_conforming(port, payload)
        if case.get("prior"):
            # an up-to-date board was used earlier on the same device path (same .port), then unplugged
            def on_write_new(port, payload):
                if command_name(payload).upper() == "V":
                    port.queue.append((BANNER + "2.8.1\r\n").encode("ascii"))
                else:
                    legacy_conforming(port, payload)
            old = FakePort(on_write=on_write_new, sym=True)
            for g_ in GATES:
                self._call_gate(es, em, g_, old)
            es.min_version(old, "2.6.0")
        port = FakePort(on_write=on_write, sym=True)
        try:
            if helper == "servo_timeout":
                em.servo_timeout(port, 60000, 1)
            elif helper == "queryVoltage":
                em.queryVoltage(port)
            elif helper == "query_nickname":
                es.query_nickname(port)
            elif helper == "write_nickname":
                es.write_nickname(port, "abc")
            else:
                es.reboot(port)
        except Exception as ex:
            run.prove("gate/%s:no-exception" % helper, z3.BoolVal(False), info={"raised": repr(ex)[:200]})
            return
        names = [command_name(w).upper() for w in port.writes]
        sent = cmdname in names
        extra = [n for n in names if n not in ("V", cmdname)]
        if nums is not None:
            run.reach("gate:sent" if sent else "gate:blocked")
            run.prove("gate/%s:command-sent-iff-version>=%s" % (helper, thr), z3.BoolVal(sent) == ver_ge(nums, thr), info={"written": names})
        else:
            run.reach("gate:blocked-no-version")
            run.prove("gate/%s:nothing-sent-without-a-reported-version" % helper, z3.BoolVal(not sent), info={"written": names, "v_reply": vkind})
        run.prove("gate/%s:nothing-else-sent" % helper, z3.BoolVal(not extra), info={"written": names})

    @staticmethod
    def _call_gate(es, em, helper, port):
        if helper == "servo_timeout":
            em.servo_timeout(port, 60000, 1)
        elif helper == "queryVoltage":
            em.queryVoltage(port)
        elif helper == "query_nickname":
            es.query_nickname(port)
        elif helper == "write_nickname":
            es.write_nickname(port, "abc")
        else:
            es.reboot(port)

    def h_connect(self, run, case):
        pre = case["pre"]
        vers = [sym_version(run, case["lens"], "p%d" % i) for i in range(2)]
        st = {"probe": -1, "kinds": []}

        def mk_port():
            def on_write(port, payload):
                if payload.is_concrete() and payload.concrete_str() == "v\r":
                    st["probe"] += 1
                    port.queue = []
                    st["pending"] = True
                else:
                    st["pending"] = False
                    name = command_name(payload).upper()
                    if name == "QT":
                        port.queue.append(b"QT,name\r\n")
                    else:
                        port.queue.append((command_name(payload) + "\r\n").encode("ascii"))

            def responder(port):
                if st.get("pending") and st["probe"] < 2:
                    st["pending"] = False
                    i = st["probe"]
                    k = run.choose(4, "probe%d" % i)
                    st["kinds"].append(k)
                    if k == 0:
                        return b""
                    if k == 1:
                        return b"Hello, I am a modem\r\n"
                    if k == 2:
                        return SymBytes(SymStr(tuple(BANNER)) + vers[i][0] + "\r\n")
                    raise serial.SerialException("read failed")
                return port.queue.pop(0) if port.queue else b""
            return FakePort(responder=responder, on_write=on_write, sym=True)
        ports = []

        class SerialStub:
            SerialException = serial.SerialException
            serialutil = serial.serialutil

            @staticmethod
            def Serial(name, timeout=None):
                if run.choose(2, "open") == 1:
                    st["open_failed"] = True
                    raise serial.SerialException("could not open port")
                p = mk_port()
                ports.append(p)
                return p

        def comports_stub():
            if pre == "noboard":
                return [("/dev/ttyS0", "ttyS0", "PNP0501")]
            return [("/dev/ttyACM0", "EiBotBoard", "USB VID:PID=04D8:FD92 SER=ABC LOCATION=1-1")]
        e3, m3 = stack.load_ebb3(extra_serial={"parse": verstub.parse_stub, "serial": SerialStub, "comports": comports_stub})
        obj = e3.EBB3()
        if pre == "reused":
            obj.version = "9.9.9"
            obj.version_parsed = verstub.parse_stub("9.9.9")
            obj.name = "old board"
            obj.port_name = "/dev/ttyACM0"
        try:
            res = obj.connect()
        except Exception as ex:
            run.prove("connect:no-exception", z3.BoolVal(False), info={"raised": repr(ex)[:200], "probes": st["kinds"]})
            return
        writes = [w.concrete_str() if w.is_concrete() else "?" for p in ports for w in p.writes]
        kinds = st["kinds"]
        verified_idx = next((i for i, k in enumerate(kinds) if k == 2), None)
        if kinds and 3 in kinds[:(verified_idx if verified_idx is not None else len(kinds))]:
            verified_idx = None       # an exception during the handshake aborts it
        if pre == "noboard":
            run.reach("connect:noboard")
            run.prove("connect:no-board:False-with-error-nothing-opened", z3.BoolVal(res is False and obj.err is not None and not ports))
            return
        if st.get("open_failed"):
            run.reach("connect:open-failed")
            run.prove("connect:open-failure:False-with-error", z3.BoolVal(res is False and obj.err is not None and obj.port is None))
            return
        if verified_idx is None:
            run.reach("connect:not-verified")
            run.prove("connect:unverified:False-with-error", z3.BoolVal(res is False and obj.err is not None), info={"probes": kinds, "returned": repr(res)})
            run.prove("connect:unverified:only-version-probes-sent", z3.BoolVal(all(w == "v\r" for w in writes) and len(writes) <= 2), info={"written": writes})
            run.prove("connect:unverified:port-closed", z3.BoolVal(obj.port is None))
            return
        nums = vers[verified_idx][1]
        supported = ver_ge(nums, "3.0.2")
        good = res is True and obj.err is None
        bad = res is False and obj.err is not None
        run.reach("connect:ok" if good else "connect:too-old")
        run.prove("connect:True-without-error-iff-firmware>=3.0.2", z3.And(z3.BoolVal(good) == supported, z3.BoolVal(good or bad)),
                  info={"returned": repr(res), "err": str(obj.err)[:120]})
        nv = verified_idx + 1
        if good:
            run.prove("connect:supported:handshake-text", z3.BoolVal(writes == ["v\r"] * nv + ["CU,10,1\r", "QT\r"]), info={"written": writes})
        else:
            run.prove("connect:unsupported:nothing-beyond-the-version-probe", z3.BoolVal(writes == ["v\r"] * nv), info={"written": writes})
            # history: the refused object is asked again (a retry button) and then used.  A board with unsupported firmware
            # must still not be reported "True with no error" and must still receive nothing beyond the version probes.
            try:
                res2 = obj.connect()
                sent2 = obj.command("SP,1")
            except Exception as ex:
                run.prove("connect:unsupported:retry:no-exception", z3.BoolVal(False), info={"raised": repr(ex)[:200]})
                return
            writes2 = [w.concrete_str() if w.is_concrete() else "?" for p in ports for w in p.writes]
            run.prove("connect:unsupported:retry-is-not-True-without-error", z3.Or(supported, z3.BoolVal(not (res2 is True and obj.err is None))),
                      info={"second_connect": repr(res2), "err": str(obj.err)[:120]})
            run.prove("connect:unsupported:retry:nothing-beyond-version-probes", z3.Or(supported, z3.BoolVal(all(w == "v\r" for w in writes2) and sent2 is False)),
                      info={"written": writes2, "command_returned": repr(sent2)})

    # ------------------------------------------------------------------------------------------------
    def replay(self, cex):
        import logging
        logging.getLogger("plotink.ebb_serial").disabled = True
        case = next(c for c in self.cases("thorough") + self.cases("quick") if c["label"] == cex["case"])
        i = cex["inputs"]
        kind = case["kind"]
        if kind == "mv":
            ver = model_version(i, "v", case["lens"])
            banner = BANNER + ver + "\r\n"
            thr = case["thr"]
            exp = pk_parse(ver) >= pk_parse(thr) if True else None
            exp = tuple(int(x) for x in ver.split(".")) >= tuple(int(x) for x in thr.split("."))
            if case["layer"] == "legacy":
                es = loader.native("ebb_serial")
                port = FakePort(on_write=lambda p, w: p.queue.append(banner.encode("ascii")))
                got = es.min_version(port, thr)
            else:
                e3 = loader.native("ebb3_serial")
                obj = e3.EBB3()
                obj.parse_version(banner.strip())
                got = obj.min_version(thr)
            return None if got is exp else {"reported": ver, "threshold": thr, "returned": got, "expected": exp, "layer": case["layer"]}
        if kind == "gate":
            es, em = loader.native("ebb_serial"), loader.native("ebb_motion")
            helper, vkind = case["helper"], case["vkind"]
            thr, cmdname = GATES[helper]
            ver = model_version(i, "v", case["lens"]) if vkind == "version" else None
            vreply = {"version": (BANNER + (ver or "") + "\r\n").encode("ascii"), "ok": b"OK\r\n", "err": b"!8 Err: unknown command\r\n",
                      "noversion": b"EBBv13_and_above EB\r\n", "empty": None}[vkind]

            def on_write(port, payload):
                if command_name(payload).upper() == "V":
                    if vreply is not None:
                        port.queue.append(vreply)
                else:
                    legacy_conforming(port, payload)
            if case.get("prior"):
                def on_write_new(port, payload):
                    if command_name(payload).upper() == "V":
                        port.queue.append((BANNER + "2.8.1\r\n").encode("ascii"))
                    else:
                        legacy_conforming(port, payload)
                old = FakePort(on_write=on_write_new)
                for g_ in GATES:
                    self._call_gate(es, em, g_, old)
                es.min_version(old, "2.6.0")
            port = FakePort(on_write=on_write)
            try:
                if helper == "servo_timeout":
                    em.servo_timeout(port, 60000, 1)
                elif helper == "queryVoltage":
                    em.queryVoltage(port)
                elif helper == "query_nickname":
                    es.query_nickname(port)
                elif helper == "write_nickname":
                    es.write_nickname(port, "abc")
                else:
                    es.reboot(port)
            except Exception as ex:
                return {"helper": helper, "v_reply": vkind, "reported": ver, "raised": repr(ex)}
            names = [command_name(w).upper() for w in port.writes]
            want = ver is not None and tuple(int(x) for x in ver.split(".")) >= tuple(int(x) for x in thr.split("."))
            extra = [n for n in names if n not in ("V", cmdname)]
            if (cmdname in names) != want or extra:
                return {"helper": helper, "v_reply": vkind, "reported": ver, "threshold": thr, "written": names}
            return None
        # connect: enumerate the handshakes concretely with the model's versions
        e3 = loader.native("ebb3_serial")
        vers = [model_version(i, "p%d" % k, case["lens"]) for k in range(2)]
        pre = case["pre"]
        orig = (e3.serial.Serial, e3.comports)
        try:
            for open_fail in (False, True):
                for kinds in itertools.product(range(4), repeat=2):
                    st = {"probe": -1, "pending": False}
                    ports = []

                    def mk():
                        def on_write(port, payload):
                            if payload.concrete_str() == "v\r":
                                st["probe"] += 1
                                port.queue = []
                                st["pending"] = True
                            else:
                                st["pending"] = False
                                nm = command_name(payload)
                                port.queue.append(b"QT,name\r\n" if nm.upper() == "QT" else (nm + "\r\n").encode("ascii"))

                        def responder(port):
                            if st["pending"] and st["probe"] < 2:
                                st["pending"] = False
                                k = kinds[st["probe"]]
                                if k == 0:
                                    return b""
                                if k == 1:
                                    return b"Hello, I am a modem\r\n"
                                if k == 2:
                                    return (BANNER + vers[st["probe"]] + "\r\n").encode("ascii")
                                raise serial.SerialException("read failed")
                            return port.queue.pop(0) if port.queue else b""
                        p = FakePort(responder=responder, on_write=on_write)
                        ports.append(p)
                        return p

                    def fake_serial(name, timeout=None):
                        if open_fail:
                            raise serial.SerialException("could not open port")
                        return mk()
                    e3.serial.Serial = fake_serial
                    e3.comports = (lambda: [("/dev/ttyS0", "ttyS0", "PNP0501")]) if pre == "noboard" else \
                        (lambda: [("/dev/ttyACM0", "EiBotBoard", "USB VID:PID=04D8:FD92 SER=ABC LOCATION=1-1")])
                    obj = e3.EBB3()
                    if pre == "reused":
                        obj.version = "9.9.9"
                        obj.version_parsed = pk_parse("9.9.9")
                        obj.name = "old board"
                    try:
                        res = obj.connect()
                    except Exception as ex:
                        return {"handshake": [open_fail, kinds], "versions": vers, "raised": repr(ex)}
                    writes = [w.concrete_str() for p in ports for w in p.writes]
                    desc = {"pre": pre, "open_fail": open_fail, "probes": kinds, "versions": vers, "returned": res, "err": obj.err, "written": writes}
                    if pre == "noboard" or open_fail:
                        if not (res is False and obj.err is not None and not writes):
                            return desc
                        continue
                    vidx = None
                    for k_i, k in enumerate(kinds):
                        if k == 3:
                            break
                        if k == 2:
                            vidx = k_i
                            break
                    if vidx is None:
                        if not (res is False and obj.err is not None and all(w == "v\r" for w in writes) and len(writes) <= 2 and obj.port is None):
                            return desc
                        continue
                    sup = tuple(int(x) for x in vers[vidx].split(".")) >= (3, 0, 2)
                    if sup:
                        if not (res is True and obj.err is None and writes == ["v\r"] * (vidx + 1) + ["CU,10,1\r", "QT\r"]):
                            return desc
                    else:
                        if not (res is False and obj.err is not None and writes == ["v\r"] * (vidx + 1)):
                            return desc
                        try:
                            res2 = obj.connect()
                            sent2 = obj.command("SP,1")
                        except Exception as ex:
                            desc["retry_raised"] = repr(ex)
                            return desc
                        writes2 = [w.concrete_str() for p in ports for w in p.writes]
                        if (res2 is True and obj.err is None) or sent2 is not False or not all(w == "v\r" for w in writes2):
                            desc.update({"second_connect": res2, "err_after_retry": obj.err, "command_returned": sent2, "written_after_retry": writes2})
                            return desc
            return None
        finally:
            e3.serial.Serial, e3.comports = orig

    def validate(self, tier, seed):
        """Reference parser vs packaging.version on a grid (incl. multi-digit components, leading zeros, 2 and 4 components)."""
        import random
        rnd = random.Random(seed)
        vs = ["2.5.5", "2.10.0", "2.9.9", "3.0.2", "3.0", "3", "10.0.0", "2.05.1", "0.0.0", "2.6", "2.6.0.1", "1.99.99"]
        for _ in range(25):
            vs.append(".".join(str(rnd.randint(0, 30)) for _ in range(3)))
        n = 0
        for a in vs:
            for b in vs:
                exp = (pk_parse(a) >= pk_parse(b), pk_parse(a) < pk_parse(b), pk_parse(a) == pk_parse(b))

                def h(run):
                    x, y = verstub.parse_stub(SymStr(tuple(a))), verstub.parse_stub(b)
                    return (bool(x >= y), bool(x < y), bool(x == y))
                got = run_pinned(h)
                assert got == exp, "parse stub disagrees with packaging on %s vs %s: %r %r" % (a, b, got, exp)
                n += 1
        for bad in ["", "abc", "2..5", "2.5.", "1.2.x"]:
            try:
                pk_parse(bad)
                ok_pk = True
            except InvalidVersion:
                ok_pk = False

            def h2(run):
                try:
                    verstub.parse_stub(SymStr(tuple(bad)))
                    return True
                except InvalidVersion:
                    return False
            assert run_pinned(h2) == ok_pk, "parse stub validity differs from packaging on %r" % bad
            n += 1
        return n


if __name__ == "__main__":
    main(Check())
