"""C07 - legacy serial primitives: one write, aligned replies, no exception on faults.

ebb_serial.query / ebb_serial.command are run on a symbolic request (symbolic name letters - so the
solver can pick a name from the no-OK list or not - optional arguments, CR) against a port scripted
by symbolic variables: e1 empty reads, a symbolic data line, and for OK-terminated queries e2 empty
reads and OK; or more than 100 empty reads; or an exception raised at a solver-chosen read; or a
failing write.  Proved per path: the request is written exactly once, nothing escapes, query returns
text (the data line of this request, or '' when nothing arrived) and consumes exactly the reads that
belong to this request (alignment of consecutive requests by induction)."""
import serial
import z3

from pysx import engine, loader, stack
from pysx.harness import CheckBase, main, run_pinned
from pysx.serialmodel import FakePort
from pysx.strs import SymStr, SymBytes, zor, zand
from pysx.values import SymBool

NO_OK = ("a", "i", "mr", "pi", "qm", "qg", "v")
SHAPES = {"N": (1, 0), "NN": (2, 0), "N,a": (1, 1), "NN,a": (2, 2)}
DATA_ALPHA = [ord(x) for x in "0123456789,-Er:OK "]
EXC = {1: serial.SerialException, 2: OSError, 3: RuntimeError}


def letter(run, name):
    c = run.fresh_int(name)
    run.inputs[name] = c
    run._add(z3.And(c >= 65, c <= 122, z3.Or(c <= 90, c >= 97)))
    return c


def ch_from(run, name, codes):
    c = run.fresh_int(name)
    run.inputs[name] = c
    run._add(z3.Or([c == k for k in codes]))
    return c


def model_str(inputs, prefix, n):
    return "".join(chr(int(inputs["%s%d" % (prefix, i)])) for i in range(n) if "%s%d" % (prefix, i) in inputs)


def _choice(inputs, prefix, default=0):
    for k, v in inputs.items():
        if k.startswith(prefix + "!"):
            return int(v)
    return default


def tb(x):
    return z3.BoolVal(x) if isinstance(x, bool) else x


class Check(CheckBase):
    pid = "C07"
    title = "legacy serial primitives"
    bounds = {"quick": {"request": "1- or 2-letter symbolic name, 0-2 symbolic argument characters, CR", "empty reads": "e1, e2 in [0,2] u [99,102] (symbolic)",
                        "data line": "0, 2 or 5 symbolic characters + CRLF", "faults": "exception (SerialException/OSError/RuntimeError) at a "
                        "symbolic read index 0..5 with e1,e2 <= 2; failing write; port None; request None"},
              "thorough": {"request": "as quick", "empty reads": "e1, e2 in [0,10] u [95,102] (symbolic)", "data line": "0..6 symbolic characters + CRLF",
                           "faults": "as quick with read index 0..8, e1,e2 <= 3"}}
    outside = ["non-ASCII bytes from the device (UnicodeDecodeError is not in the except tuple)", "a device that sends more lines than the documented reply",
               "the induction over sequences of requests (each step leaves the stream aligned; standard argument)"]
    stubs = ["fake port scripted by symbolic variables", "logger replaced by a recorder"]
    assumptions = ["a read is 'empty' when it returns b'' (the legacy layer does not strip)"]

    def functions_encoded(self):
        return loader.encoded("ebb_serial", ["query", "command"])

    def cases(self, tier):
        cs = []
        lens = (0, 2, 5) if tier == "quick" else (0, 1, 2, 3, 4, 5, 6)
        for fn in ("query", "command"):
            for shape in SHAPES:
                for L in (lens if fn == "query" else (0,)):
                    cs.append({"label": "%s/%s/conforming/L%d" % (fn, shape, L), "fn": fn, "shape": shape, "L": L, "mode": "conforming", "tier": tier, "split_depth": 6})
                cs.append({"label": "%s/%s/read-exception" % (fn, shape), "fn": fn, "shape": shape, "L": 2, "mode": "rexc", "tier": tier})
                cs.append({"label": "%s/%s/write-exception" % (fn, shape), "fn": fn, "shape": shape, "L": 2, "mode": "wexc", "tier": tier})
            cs.append({"label": "%s/none" % fn, "fn": fn, "shape": "N", "L": 0, "mode": "none", "tier": tier})
        return cs

    def config(self, tier, case):
        return engine.Config(max_decisions=700)

    def expected_reach(self, tier):
        return ["query:data+ok", "query:data-no-ok", "query:timeout-data", "query:timeout-ok", "query:read-exception", "query:write-exception",
                "command:ok", "command:timeout", "command:read-exception", "command:write-exception", "none"]

    def harness(self, run, case):
        es, _em = stack.load_legacy()
        fn = getattr(es, case["fn"])
        tag = case["fn"]
        if case["mode"] == "none":
            port = FakePort(sym=True)
            r1 = fn(None, SymStr.lit("QS\r"))
            r2 = fn(port, None)
            run.reach("none")
            run.prove(tag + ":no-port-or-no-text:does-nothing", z3.BoolVal(r1 is None and r2 is None and not port.writes and port.n_reads == 0))
            return
        nlen, alen = SHAPES[case["shape"]]
        name = [letter(run, "n%d" % i) for i in range(nlen)]
        body = list(name)
        if alen:
            body.append(",")
            body += [ch_from(run, "a%d" % i, [ord(x) for x in "0123456789,BEC"]) for i in range(alen)]
        request = SymStr(body + ["\r"])
        nm_low = SymStr(name).lower()
        no_ok = tb(zor(nm_low.eq_term(x) for x in NO_OK))
        L = case["L"]
        data = SymStr([ch_from(run, "d%d" % i, DATA_ALPHA) for i in range(L)] + ["\r", "\n"])
        mode = case["mode"]
        quick = case["tier"] == "quick"
        emax = 102
        e1 = run.int("e1", 0, emax)
        e2 = run.int("e2", 0, emax)
        if mode == "conforming":
            if quick:
                run.assume(z3.And(z3.Or(e1.t <= 2, e1.t >= 99), z3.Or(e2.t <= 2, e2.t >= 99)))
            else:
                run.assume(z3.And(z3.Or(e1.t <= 10, e1.t >= 95), z3.Or(e2.t <= 10, e2.t >= 95)))
        else:
            lim = 2 if quick else 3
            run.assume(z3.And(e1.t <= lim, e2.t <= lim))
        X = None
        exc_kind = 0
        if mode == "rexc":
            X = run.int("X", 0, 5 if quick else 8)
            exc_kind = 1 + run.choose(3, "exc")
        wexc = 0
        if mode == "wexc":
            wexc = 1 + run.choose(3, "wexc")
        st = {"phase": 0, "k": 0}   # phase 0: before data, 1: before OK, 2: stream exhausted

        def on_write(port, payload):
            if wexc:
                raise EXC[wexc]("write failed")

        def responder(port):
            i = port.n_reads - 1
            if X is not None and run.branch(z3.IntVal(i) == X.t):
                raise EXC[exc_kind]("read failed")
            if st["phase"] == 0:
                if run.branch(z3.IntVal(st["k"]) < e1.t):
                    st["k"] += 1
                    return b""
                st["phase"], st["k"] = 1, 0
                if case["fn"] == "command":
                    st["phase"] = 2
                    return b"OK\r\n"
                return SymBytes(data)
            if st["phase"] == 1:
                if run.branch(no_ok):
                    st["phase"] = 2
                    st["over"] = st.get("over", 0) + 1
                    return b""
                if run.branch(z3.IntVal(st["k"]) < e2.t):
                    st["k"] += 1
                    return b""
                st["phase"] = 2
                return b"OK\r\n"
            st["over"] = st.get("over", 0) + 1     # reads beyond this request's reply
            return b""
        port = FakePort(responder=responder, on_write=on_write, sym=True)
        try:
            ret = fn(port, request)
        except Exception as ex:
            run.prove(tag + ":no-exception-escapes", z3.BoolVal(False), info={"raised": repr(ex)[:200]})
            return
        if wexc:
            run.reach(tag + ":write-exception")
            run.prove(tag + ":write-fault:nothing-read", z3.BoolVal(port.n_reads == 0))
            if case["fn"] == "query":
                run.prove(tag + ":write-fault:returns-empty-text", z3.BoolVal(_is_text(ret) and len(ret) == 0), info={"returned": repr(ret)})
            else:
                run.prove(tag + ":returns-None", z3.BoolVal(ret is None))
            return
        ok = len(port.writes) == 1
        t = port.writes[0].eq_term(request) if ok else False
        run.prove(tag + ":writes-request-once", tb(t), info={"written": [repr(w) for w in port.writes]})
        if case["fn"] == "command":
            run.prove(tag + ":returns-None", z3.BoolVal(ret is None))
            if mode == "rexc":
                run.reach("command:read-exception")
                return
            timeout = run.branch(e1.t > 100)
            if timeout:
                run.reach("command:timeout")
                run.prove(tag + ":timeout:101-reads", z3.BoolVal(port.n_reads == 101))
            else:
                run.reach("command:ok")
                run.prove(tag + ":reads-consumed", z3.IntVal(port.n_reads) == e1.t + 1, info={"reads": port.n_reads})
                run.prove(tag + ":no-over-read", z3.BoolVal(st.get("over", 0) == 0))
            return
        # ---- query ------------------------------------------------------------------------------------------
        run.prove(tag + ":returns-text", z3.BoolVal(_is_text(ret)), info={"returned": repr(ret)[:80]})
        if not _is_text(ret):
            return
        rets = ret if isinstance(ret, SymStr) else SymStr(tuple(ret))
        if mode == "rexc":
            run.reach("query:read-exception")
            # the data line arrived iff the exception hit after read number e1
            got_data = X.t > e1.t
            run.prove(tag + ":read-fault:returns-data-iff-it-arrived",
                      z3.If(got_data, tb(rets.eq_term(data)), z3.BoolVal(len(rets) == 0)), info={"returned": repr(ret)[:80]})
            return
        if run.branch(e1.t > 100):
            run.reach("query:timeout-data")
            run.prove(tag + ":timeout:returns-empty-text", z3.BoolVal(len(rets) == 0))
            return
        run.prove(tag + ":returns-data-line-of-this-request", tb(rets.eq_term(data)), info={"returned": repr(ret)[:80]})
        if run.branch(no_ok):
            run.reach("query:data-no-ok")
            run.prove(tag + ":no-ok:reads-consumed", z3.IntVal(port.n_reads) == e1.t + 1, info={"reads": port.n_reads})
            run.prove(tag + ":no-ok:no-over-read", z3.BoolVal(st.get("over", 0) == 0))
            return
        if run.branch(e2.t > 100):
            run.reach("query:timeout-ok")
            return
        run.reach("query:data+ok")
        run.prove(tag + ":reads-consumed", z3.IntVal(port.n_reads) == e1.t + e2.t + 2, info={"reads": port.n_reads})
        run.prove(tag + ":no-over-read", z3.BoolVal(st.get("over", 0) == 0))

    # ------------------------------------------------------------------------------------------------
    def replay(self, cex):
        es = loader.native("ebb_serial")
        import logging
        logging.getLogger("plotink.ebb_serial").disabled = True
        case = next(c for c in self.cases("thorough") + self.cases("quick") if c["label"] == cex["case"])
        i = cex["inputs"]
        fn = getattr(es, case["fn"])
        if case["mode"] == "none":
            port = FakePort()
            r1, r2 = fn(None, "QS\r"), fn(port, None)
            if not (r1 is None and r2 is None and not port.writes and port.n_reads == 0):
                return {"returned": [repr(r1), repr(r2)], "writes": len(port.writes), "reads": port.n_reads}
            return None
        nlen, alen = SHAPES[case["shape"]]
        name = model_str(i, "n", nlen)
        request = name + ("," + model_str(i, "a", alen) if alen else "") + "\r"
        data = model_str(i, "d", case["L"]) + "\r\n"
        e1, e2 = int(i["e1"]), int(i["e2"])
        X = int(i["X"]) if "X" in i else None
        exc_kind = 1 + _choice(i, "exc") if case["mode"] == "rexc" else 0
        wexc = 1 + _choice(i, "wexc") if case["mode"] == "wexc" else 0
        no_ok = name.lower() in NO_OK
        st = {"phase": 0, "k": 0, "over": 0}

        def on_write(port, payload):
            if wexc:
                raise EXC[wexc]("write failed")

        def responder(port):
            k = port.n_reads - 1
            if X is not None and k == X:
                raise EXC[exc_kind]("read failed")
            if st["phase"] == 0:
                if st["k"] < e1:
                    st["k"] += 1
                    return b""
                st["phase"], st["k"] = 1, 0
                if case["fn"] == "command":
                    st["phase"] = 2
                    return b"OK\r\n"
                return data.encode("ascii")
            if st["phase"] == 1:
                if no_ok:
                    st["phase"] = 2
                    st["over"] += 1
                    return b""
                if st["k"] < e2:
                    st["k"] += 1
                    return b""
                st["phase"] = 2
                return b"OK\r\n"
            st["over"] += 1
            return b""
        port = FakePort(responder=responder, on_write=on_write)
        try:
            ret = fn(port, request)
        except Exception as ex:
            return {"call": "%s(port, %r)" % (case["fn"], request), "e1": e1, "e2": e2, "X": X, "raised": repr(ex)}
        desc = {"call": "%s(port, %r)" % (case["fn"], request), "e1": e1, "e2": e2, "X": X, "data": data, "returned": repr(ret),
                "reads": port.n_reads, "writes": [w.concrete_str() for w in port.writes], "over_reads": st["over"]}
        if wexc:
            good = port.n_reads == 0 and (ret == "" if case["fn"] == "query" else ret is None)
            return None if good else desc
        if desc["writes"] != [request]:
            return desc
        if case["fn"] == "command":
            if ret is not None:
                return desc
            if case["mode"] == "rexc":
                return None
            good = port.n_reads == 101 if e1 > 100 else (port.n_reads == e1 + 1 and st["over"] == 0)
            return None if good else desc
        if not isinstance(ret, str):
            return desc
        if case["mode"] == "rexc":
            return None if ret == (data if X > e1 else "") else desc
        if e1 > 100:
            return None if ret == "" else desc
        if ret != data:
            return desc
        if no_ok:
            return None if (port.n_reads == e1 + 1 and st["over"] == 0) else desc
        if e2 > 100:
            return None
        return None if (port.n_reads == e1 + e2 + 2 and st["over"] == 0) else desc

    def validate(self, tier, seed):
        es_n = loader.native("ebb_serial")
        import logging
        logging.getLogger("plotink.ebb_serial").disabled = True
        n = 0
        table = [("QS\r", [b"12,-34\r\n", b"OK\r\n"]), ("v\r", [b"EBBv13 Firmware Version 2.8.1\r\n"]), ("QB\r", [b"0\r\n", b"", b"OK\r\n"]),
                 ("PI,E,0\r", [b"PI,1\r\n"]), ("SM,1,0,0\r", [b"OK\r\n"]), ("XX\r", [b"!8 Err: unknown\r\n"]), ("QL\r", [])]
        for req, lines in table:
            for fn in ("query", "command"):
                def session(mod, sym):
                    port = FakePort(sym=sym)
                    port.queue = list(lines)
                    try:
                        r = getattr(mod, fn)(port, SymStr(tuple(req)) if sym else req)
                    except Exception as ex:
                        r = "raised " + type(ex).__name__
                    if isinstance(r, SymStr):
                        r = r.concretize()
                    return r, port.n_reads, len(port.writes)
                exp = session(es_n, False)
                got = run_pinned(lambda run: session(stack.load_legacy()[0], True))
                assert exp == got, "translator validation failed for %s(%r): %r vs %r" % (fn, req, exp, got)
                n += 1
        return n


def _is_text(v):
    return isinstance(v, (str, SymStr))


if __name__ == "__main__":
    main(Check())
