"""C14 - R-tree intersection query equals brute force.

rtree.Index.__init__ and Index.intersection are executed on N boxes and a query box whose 4N+4
coordinates are unbounded symbolic reals (x1<=x2, y1<=y2, degenerate boxes allowed).  On every path
(one per outcome of the quadrant tests, the recursion and the pruning tests) the solver proves for
each identifier: it is in the result exactly when its box shares a point with the query box.
Linear real arithmetic only (means are sums divided by the concrete N)."""
import itertools
import random
from fractions import Fraction

import z3

from pysx import engine, loader, shims
from pysx.harness import CheckBase, main, run_pinned
from pysx.values import SymReal


def load():
    return loader.load_plotink("rtree", shims.std_overrides(real_tower=True))


def overlap(b, q):
    return z3.And(b[0] <= q[2], q[0] <= b[2], b[1] <= q[3], q[1] <= b[3])


class Check(CheckBase):
    pid = "C14"
    title = "R-tree intersection = brute force"
    bounds = {"quick": {"boxes": "N = 0, 1, 2 boxes; all coordinates unbounded symbolic reals with x1<=x2, y1<=y2 (zero-width/height allowed)",
                        "query": "symbolic box, x1<=x2, y1<=y2"},
              "thorough": {"boxes": "N <= 3 (N = 3 explored in full)", "query": "as quick"}}
    outside = ["N above the bound", "binary64 rounding of the mean centre (floats are modelled as exact reals)", "non-finite coordinates",
               "query boxes with min > max"]
    stubs = ["min/max: If-terms (no fork); math.inf handled concretely"]
    assumptions = ["x1 <= x2 and y1 <= y2 for every box and the query"]

    def functions_encoded(self):
        return loader.encoded("rtree", ["__init__", "intersection"])

    def cases(self, tier):
        ns = [0, 1, 2] if tier == "quick" else [0, 1, 2, 3]
        return [{"label": "N%d" % n, "n": n, "split_depth": 10 if n >= 2 else None} for n in ns]

    def config(self, tier, case):
        return engine.Config(logic="QF_LRA", max_decisions=2000)

    def expected_reach(self, tier):
        return ["leaf", "split", "hit", "miss"]

    def harness(self, run, case):
        rt = load()
        n = case["n"]
        boxes = []
        for i in range(n):
            b = [run.real("b%d_%s" % (i, k)) for k in ("x1", "y1", "x2", "y2")]
            run.assume(b[0] <= b[2])
            run.assume(b[1] <= b[3])
            boxes.append((i, tuple(b)))
        q = [run.real("q_%s" % k) for k in ("x1", "y1", "x2", "y2")]
        run.assume(q[0] <= q[2])
        run.assume(q[1] <= q[3])
        idx = rt.Index(list(boxes))
        run.reach("split" if idx.subtrees else "leaf")
        res = idx.intersection(tuple(q))
        assert isinstance(res, set)
        qt = [c.t for c in q]
        for i, b in boxes:
            bt = [c.t for c in b]
            if i in res:
                run.reach("hit")
                run.prove("reported-id-really-intersects", overlap(bt, qt), info={"id": i})
            else:
                run.reach("miss")
                run.prove("intersecting-id-not-missed", z3.Not(overlap(bt, qt)), info={"id": i})
        extra = [i for i in res if i not in range(n)]
        if extra:
            run.prove("no-unknown-ids", z3.BoolVal(False), info={"ids": extra})

    def replay(self, cex):
        rt = loader.native("rtree")
        n = int(cex["case"][1:])
        i = cex["inputs"]
        boxes = [(k, tuple(Fraction(i["b%d_%s" % (k, c)]) for c in ("x1", "y1", "x2", "y2"))) for k in range(n)]
        q = tuple(Fraction(i["q_%s" % c]) for c in ("x1", "y1", "x2", "y2"))
        got = rt.Index(list(boxes)).intersection(q)
        exp = {k for k, b in boxes if b[0] <= q[2] and q[0] <= b[2] and b[1] <= q[3] and q[1] <= b[3]}
        if got != exp:
            return {"boxes": [[str(c) for c in b] for _k, b in boxes], "query": [str(c) for c in q], "returned": sorted(got), "brute_force": sorted(exp)}
        return None

    def validate(self, tier, seed):
        rnd = random.Random(seed)
        nat = loader.native("rtree")
        n = 0
        for _ in range(40):
            k = rnd.randint(0, 5)
            boxes = []
            for i in range(k):
                x1, y1 = Fraction(rnd.randint(-6, 6), rnd.randint(1, 2)), Fraction(rnd.randint(-6, 6), rnd.randint(1, 2))
                boxes.append((i, (x1, y1, x1 + rnd.randint(0, 4), y1 + rnd.randint(0, 4))))
            qx, qy = Fraction(rnd.randint(-6, 6)), Fraction(rnd.randint(-6, 6))
            q = (qx, qy, qx + rnd.randint(0, 5), qy + rnd.randint(0, 5))
            exp = nat.Index(list(boxes)).intersection(q)

            def h(run):
                rt = load()
                sb = [(i, tuple(SymReal.of(c) for c in b)) for i, b in boxes]
                return set(rt.Index(sb).intersection(tuple(SymReal.of(c) for c in q)))
            got = run_pinned(h, engine.Config(logic="QF_LRA"))
            assert got == exp, "translator validation failed: %r %r -> %r vs %r" % (boxes, q, got, exp)
            n += 1
        return n


if __name__ == "__main__":
    main(Check())
