"""C14 - R-tree intersection query equals brute force.

rtree.Index.__init__ and Index.intersection are executed on N boxes and a query box whose 4N+4
coordinates are unbounded symbolic reals (x1<=x2, y1<=y2, degenerate boxes allowed).  On every path
(one per outcome of the quadrant tests, the recursion and the pruning tests) the solver proves for
each identifier: it is in the result exactly when its box shares a point with the query box.
Linear real arithmetic only (means are sums divided by the concrete N)."""
import itertools
import random
from fractions import Fraction

import z3

from pysx import engine, loader, shims
from pysx.harness import CheckBase, main, run_pinned
from pysx.values import SymReal


def load():
    return loader.load_plotink("rtree", shims.std_overrides(real_tower=True))


def overlap(b, q):
    return z3.And(b[0] <= q[2], q[0] <= b[2], b[1] <= q[3], q[1] <= b[3])


class Check(CheckBase):
    pid = "C14"
    title = "R-tree intersection = brute force"
    bounds = {"quick": {"boxes": "N = 0, 1, 2 boxes; all coordinates unbounded symbolic reals with x1<=x2, y1<=y2 (zero-width/height allowed); 8 (thorough: also 12) boxes pinned in a geometric row (a tree n - 1 levels deep) with a symbolic query", "inductive step": "a single node holding 1..3 symbolic boxes with stub children of arbitrary extent (lemmas A, B); a failed lemma is lifted to an end-to-end counterexample before it is reported",
                        "query": "symbolic box, x1<=x2, y1<=y2"},
              "thorough": {"boxes": "end-to-end N <= 2; inductive step on nodes holding up to 4 symbolic boxes", "query": "as quick"}}
    outside = ["N above the bound", "binary64 rounding of the mean centre (floats are modelled as exact reals)", "non-finite coordinates",
               "query boxes with min > max"]
    stubs = ["min/max: If-terms (no fork); math.inf handled concretely"]
    assumptions = ["x1 <= x2 and y1 <= y2 for every box and the query"]

    def functions_encoded(self):
        return loader.encoded("rtree", ["__init__", "intersection"])

    def cases(self, tier):
        ns = [0, 1, 2]
        cs = [{"label": "N%d" % n, "n": n, "split_depth": 10 if n >= 2 else None} for n in ns]
        cs += [{"label": "N%d/after-another-index" % n, "n": n, "prior": True, "split_depth": 10 if n >= 2 else None} for n in (1, 2)]
        # deep trees: the boxes are pinned in a geometric row (box k at 10^k, unit size), so every level of the tree sheds exactly
        # one box and the tree is n - 1 levels deep; the query box stays symbolic.  A specialisation of the end-to-end statement
        # that reaches depths the general case (N <= 2) and the single-node step lemmas cannot, e.g. a limit on the depth.
        for n in ((8,) if tier == "quick" else (8, 12)):
            cs.append({"label": "N%d/deep-row" % n, "n": n, "pinned": "row", "split_depth": 6})
        ks = (1, 2, 3) if tier == "quick" else (1, 2, 3, 4)
        for k in ks:
            cs.append({"label": "step/A/N%d" % k, "n": k, "step": "A", "split_depth": 8 if k >= 3 else None})
        for c in (1, 2):
            cs.append({"label": "step/B/children/N%d" % c, "n": c, "step": "Bc"})
            cs.append({"label": "step/B/leaf/N%d" % c, "n": c, "step": "Bl"})
        return cs

    def config(self, tier, case):
        return engine.Config(logic="QF_LRA", max_decisions=2000, soft_alternatives=4)

    def expected_reach(self, tier):
        return ["leaf", "split", "hit", "miss"]

    def harness(self, run, case):
        if case.get("step"):
            return self.harness_step(run, case)
        rt = load()
        n = case["n"]
        boxes = []
        for i in range(n):
            b = [run.real("b%d_%s" % (i, k)) for k in ("x1", "y1", "x2", "y2")]
            run.assume(b[0] <= b[2])
            run.assume(b[1] <= b[3])
            if case.get("pinned") == "row":
                for c_, v_ in zip(b, (10 ** i, 10 ** i, 10 ** i + 1, 10 ** i + 1)):
                    run.assume(c_ == v_)
            boxes.append((i, tuple(b)))
        q = [run.real("q_%s" % k) for k in ("x1", "y1", "x2", "y2")]
        run.assume(q[0] <= q[2])
        run.assume(q[1] <= q[3])
        if case.get("prior"):
            # other indexes built and queried earlier in the same interpreter must not influence this one
            other = rt.Index([(100, (0, 0, 1, 1)), (101, (5, 5, 6, 7)), (102, (-3, 2, -1, 2))])
            other.intersection((0, 0, 10, 10))
            rt.Index([(200, (1, 1, 2, 2))]).intersection((-1, -1, 0, 0))
        idx = rt.Index(list(boxes))
        run.reach("split" if idx.subtrees else "leaf")
        res = idx.intersection(tuple(q))
        assert isinstance(res, set)
        qt = [c.t for c in q]
        for i, b in boxes:
            bt = [c.t for c in b]
            if i in res:
                run.reach("hit")
                run.prove("reported-id-really-intersects", overlap(bt, qt), info={"id": i})
            else:
                run.reach("miss")
                run.prove("intersecting-id-not-missed", z3.Not(overlap(bt, qt)), info={"id": i})
        extra = [i for i in res if i not in range(len(boxes))]
        if extra:
            run.prove("no-unknown-ids", z3.BoolVal(False), info={"ids": extra})

    def harness_step(self, run, case):
        """Inductive step lemmas on a single node (child nodes are stubs).
        (A) construction of a node from n symbolic boxes: extent = bounding box of the boxes; a leaf keeps all boxes; a
            node that splits keeps none itself, hands every box to at least one child, hands children only its own
            boxes, and every child list is strictly shorter (termination).
        (B) query on a node: a child is visited exactly when its (arbitrary, symbolic) extent overlaps the query box
            and its answer is included; a leaf reports exactly the overlapping boxes.
        A + B give 'result = brute force' for trees of any size by induction on the height (paper argument, DESIGN.md
        C14).  A failed lemma is 'soft': it is lifted to an end-to-end counterexample before anything is reported."""
        rt = load()
        Real = rt.Index
        n = case["n"]
        made = []

        class Stub:
            bboxes, subtrees = [], []

            def __init__(self, sub, symbolic_extent=False):
                self.sub = list(sub)
                k = len(made)
                if symbolic_extent:
                    self.xmin, self.ymin, self.xmax, self.ymax = (run.real("child%d_%s" % (k, c)) for c in ("xmin", "ymin", "xmax", "ymax"))
                else:
                    self.xmin = self.ymin = self.xmax = self.ymax = 0
                self.k = k
                self.visited = False
                made.append(self)

            def intersection(self, bbox):
                self.visited = True
                return {("child", self.k)}
        q = None
        if case["step"] != "A":
            q = [run.real("q_%s" % k) for k in ("x1", "y1", "x2", "y2")]
            run.assume(q[0] <= q[2])
            run.assume(q[1] <= q[3])
        boxes = []
        if case["step"] in ("A", "Bl"):
            for i in range(n):
                b = [run.real("b%d_%s" % (i, k)) for k in ("x1", "y1", "x2", "y2")]
                run.assume(b[0] <= b[2])
                run.assume(b[1] <= b[3])
                boxes.append((i, tuple(b)))
        if case["step"] == "A":
            rt.Index = Stub
            node = Real(list(boxes))
            run.reach("split" if made else "leaf")
            bt = [[c.t for c in b] for _i, b in boxes]
            from pysx.values import zreal
            for attr, idx_, fn in (("xmin", 0, "min"), ("ymin", 1, "min"), ("xmax", 2, "max"), ("ymax", 3, "max")):
                vals = [b[idx_] for b in bt]
                m = vals[0]
                for v in vals[1:]:
                    m = z3.If(v < m, v, m) if fn == "min" else z3.If(v > m, v, m)
                run.prove("step:extent-is-bounding-box", zreal(getattr(node, attr)) == m, info={"side": attr}, soft=True)
            ids = [i for i, _b in boxes]
            if made:
                subids = [[e[0] for e in st.sub] for st in made]
                ok_sub = all(all(e in ids for e in sl) and len(set(sl)) == len(sl) for sl in subids)
                same = all(all(all(x is y for x, y in zip(e[1], boxes[e[0]][1])) for e in st.sub) for st in made) if ok_sub else False
                covered = all(any(i in sl for sl in subids) for i in ids)
                shorter = all(len(sl) < len(ids) for sl in subids)
                run.prove("step:children-hold-only-boxes-of-the-node", z3.BoolVal(bool(ok_sub and same)), soft=True)
                run.prove("step:every-box-handed-to-at-least-one-child", z3.BoolVal(bool(covered)), soft=True, info={"children": subids})
                run.prove("step:children-strictly-shorter (termination)", z3.BoolVal(bool(shorter)), soft=True)
                run.prove("step:split-node-keeps-no-boxes-itself", z3.BoolVal(len(node.bboxes) == 0), soft=True)
            else:
                kept = [e[0] for e in node.bboxes] == ids
                run.prove("step:leaf-keeps-all-boxes", z3.BoolVal(bool(kept)), soft=True)
            return
        node = object.__new__(Real)
        qt = [c.t for c in q]
        if case["step"] == "Bc":
            node.bboxes = []
            node.subtrees = [Stub([], symbolic_extent=True) for _ in range(n)]
            try:
                res = node.intersection(tuple(q))
            except (AttributeError, TypeError) as ex:
                # the hand-built node does not fit this implementation's representation: lemma B cannot be stated, which
                # is not a violation (reported as inconclusive; the end-to-end cases and lemma A still apply)
                run.prove("step:lemma-B-applicable-to-this-representation", z3.BoolVal(False), soft=True, info={"raised": repr(ex)[:120]})
                return
            run.reach("split")
            for st in made:
                ext = [st.xmin.t, st.ymin.t, st.xmax.t, st.ymax.t]
                run.prove("step:child-visited-iff-extent-overlaps-query", z3.BoolVal(st.visited) == overlap(ext, qt), info={"child": st.k}, soft=True)
                run.prove("step:visited-child-answer-included", z3.BoolVal((("child", st.k) in res) == st.visited), soft=True)
            run.prove("step:nothing-else-returned", z3.BoolVal(all(isinstance(x, tuple) for x in res)), soft=True)
            return
        node.bboxes = list(boxes)
        node.subtrees = []
        try:
            res = node.intersection(tuple(q))
        except (AttributeError, TypeError) as ex:
            run.prove("step:lemma-B-applicable-to-this-representation", z3.BoolVal(False), soft=True, info={"raised": repr(ex)[:120]})
            return
        run.reach("leaf")
        for i, b in boxes:
            run.reach("hit" if i in res else "miss")
            run.prove("step:leaf-hit-iff-overlap", z3.BoolVal(i in res) == overlap([c.t for c in b], qt), info={"id": i}, soft=True)

    def lift(self, cex):
        """A failed step lemma is not itself a violation of the property: try to lift it to an end-to-end
        counterexample (brute-force mismatch of the real Index) built from the model's boxes, optional far-away
        boxes, all list orders and probing queries."""
        rt = loader.native("rtree")
        i = cex["inputs"]
        n = int(cex["case"].split("N")[1])
        base = [tuple(Fraction(i["b%d_%s" % (k, c)]) for c in ("x1", "y1", "x2", "y2")) for k in range(n) if "b%d_x1" % k in i]
        if not base:
            # lemma B on stub children: use the children's extents as boxes
            base = [tuple(Fraction(i["child%d_%s" % (k, c)]) for c in ("xmin", "ymin", "xmax", "ymax")) for k in range(n) if "child%d_xmin" % k in i]
            base = [b for b in base if b[0] <= b[2] and b[1] <= b[3]]
        fars = [[], [(100, 100, 101, 101)], [(-100, -100, -99, -99)], [(100, -100, 101, -99)], [(-100, 100, -99, 101)],
                [(100, 100, 101, 101), (-100, -100, -99, -99)]]
        queries = []
        for b in base:
            queries += [b, (b[0], b[1], b[0], b[1]), (b[2], b[3], b[2], b[3]), (b[0], b[3], b[0], b[3]), (b[2], b[1], b[2], b[1])]
        if "q_x1" in i:
            queries.append(tuple(Fraction(i["q_%s" % c]) for c in ("x1", "y1", "x2", "y2")))
        for far in fars:
            allb = base + [tuple(Fraction(c) for c in f) for f in far]
            for perm in itertools.permutations(range(len(allb))):
                boxes = [(k, allb[k]) for k in perm]
                try:
                    idx = rt.Index(list(boxes))
                except RecursionError:
                    return {"boxes": [[str(c) for c in b] for _k, b in boxes], "construction": "does not terminate (RecursionError)"}
                for qy in queries:
                    got = idx.intersection(qy)
                    exp = {k for k, b in boxes if b[0] <= qy[2] and qy[0] <= b[2] and b[1] <= qy[3] and qy[1] <= b[3]}
                    if got != exp:
                        return {"lifted_from_step_lemma": cex["obligation"], "boxes": [[k] + [str(c) for c in b] for k, b in boxes],
                                "query": [str(c) for c in qy], "returned": sorted(got), "brute_force": sorted(exp)}
        return None

    def lift_by_solver(self, cex):
        """Second lifting attempt, by the solver: the boxes of the failed lemma's model (the node's boxes, or the
        children's extents taken as boxes) and its query stay concrete, one or two further boxes are symbolic, and
        the end-to-end harness (real constructor + real query = brute force) is explored with a path budget.  A
        model is replayed on the native code like any other end-to-end counterexample."""
        i = cex["inputs"]
        n = int(cex["case"].split("N")[1])
        base = [tuple(Fraction(i["b%d_%s" % (k, c)]) for c in ("x1", "y1", "x2", "y2")) for k in range(n) if "b%d_x1" % k in i]
        if not base:
            base = [tuple(Fraction(i["child%d_%s" % (k, c)]) for c in ("xmin", "ymin", "xmax", "ymax")) for k in range(n) if "child%d_xmin" % k in i]
            base = [b for b in base if b[0] <= b[2] and b[1] <= b[3]]
        if "q_x1" not in i or not base:
            return None
        qc = tuple(Fraction(i["q_%s" % c]) for c in ("x1", "y1", "x2", "y2"))
        native = loader.native("rtree")
        for extra in (1, 2):
            nb = len(base)

            def h(run):
                rt = load()
                boxes = [(k, tuple(SymReal.of(c) for c in b)) for k, b in enumerate(base)]
                for j in range(extra):
                    b = [run.real("b%d_%s" % (nb + j, c)) for c in ("x1", "y1", "x2", "y2")]
                    run.assume(b[0] <= b[2])
                    run.assume(b[1] <= b[3])
                    boxes.append((nb + j, tuple(b)))
                q = tuple(SymReal.of(c) for c in qc)
                res = rt.Index(list(boxes)).intersection(q)
                qt = [c.t for c in q]
                for k, b in boxes:
                    bt = [c.t for c in b]
                    run.prove("lift", overlap(bt, qt) if k in res else z3.Not(overlap(bt, qt)))
            ex = engine.Explorer(h, engine.Config(logic="QF_LRA", max_decisions=2000, max_paths=400 if extra == 1 else 800, max_cex_per_ob=4))
            try:
                st = ex.explore()
            except Exception:
                continue
            for c in st.cex:
                allb = list(base)
                for j in range(extra):
                    allb.append(tuple(Fraction(c["inputs"]["b%d_%s" % (nb + j, cc)]) for cc in ("x1", "y1", "x2", "y2")))
                boxes = [(k, b) for k, b in enumerate(allb)]
                got = native.Index(list(boxes)).intersection(qc)
                exp = {k for k, b in boxes if b[0] <= qc[2] and qc[0] <= b[2] and b[1] <= qc[3] and qc[1] <= b[3]}
                if got != exp:
                    return {"lifted_from_step_lemma": cex["obligation"], "lifted_by": "solver (model boxes concrete, %d further symbolic)" % extra,
                            "boxes": [[k] + [str(x) for x in b] for k, b in boxes], "query": [str(x) for x in qc],
                            "returned": sorted(got), "brute_force": sorted(exp)}
        return None

    def replay(self, cex):
        if cex["case"].startswith("step/"):
            return self.lift(cex) or self.lift_by_solver(cex)
        rt = loader.native("rtree")

        n = int(cex["case"][1:].split("/")[0])
        i = cex["inputs"]
        boxes = [(k, tuple(Fraction(i["b%d_%s" % (k, c)]) for c in ("x1", "y1", "x2", "y2"))) for k in range(n)]
        if "after-another-index" in cex["case"]:
            other = rt.Index([(100, (0, 0, 1, 1)), (101, (5, 5, 6, 7)), (102, (-3, 2, -1, 2))])
            other.intersection((0, 0, 10, 10))
            rt.Index([(200, (1, 1, 2, 2))]).intersection((-1, -1, 0, 0))
        q = tuple(Fraction(i["q_%s" % c]) for c in ("x1", "y1", "x2", "y2"))
        got = rt.Index(list(boxes)).intersection(q)
        exp = {k for k, b in boxes if b[0] <= q[2] and q[0] <= b[2] and b[1] <= q[3] and q[1] <= b[3]}
        if got != exp:
            return {"boxes": [[str(c) for c in b] for _k, b in boxes], "query": [str(c) for c in q], "returned": sorted(got), "brute_force": sorted(exp)}
        return None

    def validate(self, tier, seed):
        rnd = random.Random(seed)
        nat = loader.native("rtree")
        n = 0
        for _ in range(40):
            k = rnd.randint(0, 5)
            boxes = []
            for i in range(k):
                x1, y1 = Fraction(rnd.randint(-6, 6), rnd.randint(1, 2)), Fraction(rnd.randint(-6, 6), rnd.randint(1, 2))
                boxes.append((i, (x1, y1, x1 + rnd.randint(0, 4), y1 + rnd.randint(0, 4))))
            qx, qy = Fraction(rnd.randint(-6, 6)), Fraction(rnd.randint(-6, 6))
            q = (qx, qy, qx + rnd.randint(0, 5), qy + rnd.randint(0, 5))
            exp = nat.Index(list(boxes)).intersection(q)

            def h(run):
                rt = load()
                sb = [(i, tuple(SymReal.of(c) for c in b)) for i, b in boxes]
                return set(rt.Index(sb).intersection(tuple(SymReal.of(c) for c in q)))
            got = run_pinned(h, engine.Config(logic="QF_LRA"))
            assert got == exp, "translator validation failed: %r %r -> %r vs %r" % (boxes, q, got, exp)
            n += 1
        return n


if __name__ == "__main__":
    main(Check())
