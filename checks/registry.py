"""Single source of truth for MANIFEST.json (see tools_manifest.py)."""
CHECKS = {}
NOT_APPLICABLE = {}
SEED_NOTES = ("Solver-based checking of the real code: every check symbolically executes the functions of /repo's "
              "current working tree (source read at run time) and discharges the property as SMT obligations per path; "
              "bounds, stubs and what lies outside are in DESIGN.md section 3 and repeated in each evidence file. "
              "Exit codes: 0 held / only known findings; 1 VIOLATION (replayed on the real code); 3 harness error.")
