"""Single source of truth for MANIFEST.json (see tools_manifest.py)."""
CHECKS = {
    "C01": {
        "text": "move_dist_lt and both deprecated aliases are executed on symbolic integers with T symbolic up to 2^32 (no "
                "unrolling); position and accumulator are proved equal to the closed form of the firmware recurrence, which is itself "
                "proved to be the recurrence by two induction queries with unbounded T; the mpmath model tracks the precision in "
                "force, so code that computes before setting its own precision yields a satisfiable ambient-precision query that is "
                "replayed on the real code under that precision.",
        "note": "mpmath operations modelled as exact rationals whose exactness at the precision in force is discharged from magnitude "
                "bounds or by the solver; box |rate|,|accel|<=2^31, 1<=T<=2^32, 0<=accum<2^31 or 'clear'; integer arguments only",
        "technique": "symbolic execution of the Python source on z3 integer terms + SMT (non-linear integer arithmetic) obligations per path, induction lemmas, counterexample replay",
    },
    "C02": {
        "text": "move_dist_t3 (T symbolic up to 2^20) and rate_t3 (T up to 2^32 inside the binary64-exact box) are executed on symbolic "
                "integers; results are proved equal to the closed forms R(k), S(T) of the third-order recurrence (proved to be the "
                "recurrence by induction lemmas with unbounded T), including the three-level clear rule and the zero-jerk coincidence "
                "with move_dist_lt; mp rounding (/6) is covered by tracked error bounds; round()/floor() of a value that carries an error bound return any integer the real computation could return, and a counterexample that depends on such a choice is believed only when one of the solver's candidate inputs replays on the real code.",
        "note": "mp/binary64 operations modelled exactly with side-conditions (exactness or error bound) proved per path; T<=2^20 for "
                "move_dist_t3; rate_t3 under |jerk|T^2<2^40, |accel|T<2^40 (superset of the firmware-valid domain by a paper argument)",
        "technique": "symbolic execution of the Python source on z3 integer terms + SMT (non-linear integer arithmetic) obligations per path, induction lemmas, counterexample replay",
    },
    "C03": {
        "text": "calculate_lm is executed on symbolic steps/rate/accel/accumulator (and 'clear', and the legacy negative-step form). rate/accel "
                "is an exact rational with symbolic denominator; sqrt and the quadratic roots never reach the solver: ceil(root) is kept "
                "lazy (comparisons become polynomial inequalities with the square root eliminated by squaring) and materialised by "
                "solver-guided forking. The oracle is the firmware recurrence unrolled to K ticks (K = the oracle's own finishing tick, "
                "enumerated): S(k), P(k) and the step count n(k) = sum |P(i)-P(i-1)| are linear terms; under 'n(K) >= budget > n(K-1) and "
                "all |rate_k| <= 2^31-1' z3 proves duration = K, position = P(K), accumulator = S(K) mod 2^31 in [0,2^31); impossible "
                "requests give (0,0,0); moveTimeLM delegates.",
        "note": "K <= 6 (quick) / 9 (thorough), legacy form K <= 4 / 6; mp rounding of sqrt and of the root quotient at 103 bits is a "
                "paper argument (exact-root model); the closed form S(k) is the recurrence by C01",
        "technique": "symbolic execution of the Python source on z3 integer terms (square roots eliminated by squaring, lazy ceilings) + SMT (non-linear integer arithmetic) obligations per path, counterexample replay against a tick-by-tick simulation",
    },
    "C04": {
        "text": "Inductive step over the real classes: every public method of EBB3/EBBMotionWrap (found by introspection) is executed "
                "from each blocked pre-state (no port / symbolic error message recorded) with symbolic arguments against a recording "
                "fake port: it must write nothing, leave the same error object, return a failure value and stay blocked; connect and "
                "disconnect are executed from every pre-state with a solver-chosen handshake (open failure, empty, non-EBB, old/new "
                "banner, SerialException) and must never replace a recorded error. Histories of any length follow by induction. The latch is also checked inside methods that issue several requests: after a solver-placed fault nothing more may be transmitted by the same call.",
        "note": "serial.Serial/comports stubbed; failure values = False/None/tuple of Nones; induction over histories is the standard "
                "paper argument; private (_) methods and external attribute mutation outside the claim",
        "technique": "symbolic execution of the Python source (symbolic strings/ints, solver-chosen fault schedule) + per-path obligations, counterexample replay",
    },
    "C05": {
        "text": "Part A: EBB3.command/query executed on symbolic request strings (symbolic letters, arguments, surrounding whitespace; 1/2-letter "
                "shapes enumerated) against a port scripted by symbolic variables (E blank reads, then a symbolic reply line / a raised "
                "SerialException or OSError / nothing; or a failing write): written bytes, number of reads consumed (alignment), return "
                "value and error latch are proved equal to the restated framing rule. Part B: every public request method is executed "
                "against a conforming board with each fault kind injected at a solver-chosen request: nothing may escape, the failure "
                "must be latched and a failure value returned. The same requests are also run after earlier successful requests on the same object (no state may carry over), and after a fault no further bytes may be sent by the same call.",
        "note": "ASCII universe; reply length and E bounded (quick: E in [0,2]u[24,27], reply 1/4/6 chars; thorough: E in [0,27], reply 1..8); "
                "RB/R/BL exempt from exception latching (deliberate in the code); malformed data after a correct name outside the claim",
        "technique": "symbolic execution of the Python source on symbolic strings with a solver-scripted fake port + SMT obligations per path, counterexample replay",
    },
    "C06": {
        "text": "Every legacy helper (through ebb_serial.command/query) and every EBB3-layer helper is executed with symbolic "
                "integer arguments and each optional argument absent/present against a conforming fake port; formatting yields "
                "tokens, so the written text decodes to literal fields and terms that z3 proves equal to the documented command "
                "(argument order, clamping 0..5, zero values present, pause chunks in 1..750 summing to n, LM suppression rule, "
                "nothing without a port). A dropped zero shows up as a satisfiable obligation with the zero as witness. EBBMotionWrap.motors_enable is checked through C16's symbolic board (including an earlier request and a power cycle).",
        "note": "decimal rendering of integers by str.format/f-strings is a stub (token); expected texts transcribed from the "
                "docstrings/EBB reference; pause bound n<=6000 (quick) / 48000 (thorough); integer arguments only",
        "technique": "symbolic execution of the Python source with token strings + SMT (linear integer arithmetic) obligations per path, counterexample replay",
    },
    "C07": {
        "text": "ebb_serial.query/command executed on symbolic requests (symbolic name letters, so the solver chooses OK-terminated or "
                "no-OK names) against a port scripted by symbolic variables: e1 empty reads, symbolic data line, e2 empty reads, OK; "
                "over-long silences; an exception of each caught class at a solver-chosen read; a failing write; no port / no text. "
                "Proved per path: one write of the request, nothing escapes, query returns text equal to this request's data line "
                "(or ''), and exactly the reads belonging to the request are consumed (alignment).",
        "note": "ASCII; e1,e2 bounded (quick [0,2]u[99,102], thorough [0,10]u[95,102]); data line <= 5/6 symbolic chars; induction over request "
                "sequences is the standard argument from per-request alignment",
        "technique": "symbolic execution of the Python source on symbolic strings with a solver-scripted fake port + SMT obligations per path, counterexample replay",
    },
    "C08": {
        "text": "Symbolic execution of clip_segment/clip_code over eight unbounded reals: all feasible loop unrollings "
                "(0-4 clips) are explored; on every path accept/reject, on-segment, orientation, inside and coverage are "
                "proved by z3 nlsat (QF_NRA, fresh solver per query); a reachable division by zero or fail-safe exit "
                "would surface as a satisfiable obligation. Counterexamples are replayed with exact Fractions. A second case runs the call after earlier calls that used the same argument objects, edited in place (no state may survive between calls).",
        "note": "exact-real model of binary64 (tolerance of the statement is 0 here; rounding not analysed); xmin<=xmax, "
                "ymin<=ymax assumed; at most 400 decisions per path (never hit)",
        "technique": "symbolic execution of the Python source on z3 real terms + SMT (QF_NRA) obligations per path, counterexample replay",
    },
    "C09": {
        "text": "L1: points_in_tolerance is executed on n symbolic points (unbounded reals) and a symbolic tolerance; per path z3 (QF_NRA) proves "
                "True <=> every interior point closer than tol to the chord (restated division-free), the input is not mutated, and the "
                "result equals max_dist_from_n_points(pts) < tol with ffgeom executed symbolically (sqrt as a fresh root). L2: supersample "
                "is executed with the predicate replaced by a memoised nondeterministic stub on lists up to the bound, exploring every "
                "answer sequence: in-order subsequence of the same objects, first/last kept, every deleted run is the interior of a slice "
                "judged in tolerance, short lists / non-positive tolerances untouched. L1+L2 give the property. An end-to-end case runs supersample with the real predicate on 3 symbolic vertices and proves every deleted vertex within tolerance of the segment between its surviving neighbours, independently of how the function is organised; a further end-to-end case runs it on 4 (thorough 5) symbolic vertices with the predicate replaced by its contract L1 (assume-guarantee) and replays counterexamples with the real predicate. Windows of 8 and 12 points (thorough 5..16) are covered by a one-free-vertex family: every vertex but one pinned on the chord, the free vertex at each interior index and the tolerance symbolic.",
        "note": "exact-real model of binary64; n <= 4 (quick) / 5 (thorough) points for L1, lists <= 6 / 9 for L2; the composition of L1 and "
                "L2 is a paper argument (the stub's contract is L1)",
        "technique": "symbolic execution of the Python source on z3 real terms + SMT (QF_NRA) obligations per path; nondeterministic stub for the structural lemma; counterexample replay",
    },
    "C10": {
        "text": "S: subdivideCubicPath (with bezmisc.beziersplitatt executed symbolically) on node lists with symbolic control points and a "
                "nondeterministic flatness stub limited to K 'not flat' answers: on every path the final pieces are proved (linear "
                "identities) equal to the blossom restriction of the original pieces to the dyadic intervals of an independently "
                "maintained model, outer handles untouched, every final piece judged flat. F: the real predicate on 4 symbolic points "
                "returns True exactly when both inner control points are within the flatness of the chord (QF_NRA). T(i): second "
                "differences of the halves are D1/4, (D1+D2)/8, D2/4 (so they shrink by 4 per level). A second-call case subdivides the same geometry again with another flatness (nothing may be remembered between calls). E2C: the real function on 2 (thorough 2-3) symbolic nodes with the predicate replaced by its contract F and at most 1 (thorough 2) subdivisions: every final piece is flat; counterexamples are replayed with the real predicate.",
        "note": "exact-real model; <= 3 nodes, K = 4 (quick) / 7 (thorough); pieces are processed independently and the depth bound "
                "log4(max|D|/(flat/2))+1 needs T(ii) (small second differences imply flat), left as a paper argument because z3 answered unknown",
        "technique": "symbolic execution of the Python source on z3 real terms + SMT (QF_LRA/QF_NRA) obligations per path; nondeterministic stub for the structural lemma; counterexample replay",
    },
    "C11": {
        "text": "vb_scale is executed on a viewBox text of four opaque numeral atoms (values unbounded symbolic reals) with symbolic separator "
                "characters, a preserveAspectRatio text generated from the SVG grammar (none + 9 alignments x absent/meet/slice x defer, case of "
                "every letter and every separator symbolic) and symbolic document sizes; scale and offsets are proved (QF_NRA, "
                "cross-multiplied) to satisfy SVG 1.1 7.8 restated in the harness; None, 0-3 tokens, a non-numeric token and non-positive "
                "sizes must give the identity. Every case is run both in a fresh interpreter and after two earlier calls with other arguments.",
        "note": "numerals are atoms (float(atom) = its symbolic value, or ValueError when flagged non-numeric); exact-real model; grammar "
                "values only",
        "technique": "symbolic execution of the Python source on symbolic strings and z3 real terms + SMT (QF_NRA) obligations per path, counterexample replay",
    },
    "C12": {
        "text": "The five length/unit functions are executed on a symbolic text: optional blank, a numeral atom (value an unbounded symbolic "
                "real; or flagged non-numeric; or absent), 0-2 symbolic suffix characters over the unit letters of both cases plus e x %, "
                "optional blank. Per path z3 proves: a value is returned exactly for the ten supported suffixes with the right unit, "
                "conversion uses the SVG factor at 96 px/in (to relative 1e-9), converting back returns the value, getLength = 96 x "
                "getLengthInches, percentages are taken of the reference, everything else yields None with no exception. Numerals are also spelled out character by character (symbolic digits, signs, exponent marks) using a float(str) model that is validated against CPython each run.",
        "note": "numerals are atoms (float(atom) = its symbolic value / ValueError); exact-real model with relative tolerance 1e-9 for "
                "constants pre-evaluated in binary64; percent reference != 0; inf/nan/underscores outside the alphabet",
        "technique": "symbolic execution of the Python source on symbolic strings and z3 real terms + SMT (QF_LRA/NRA) obligations per path, counterexample replay",
    },
    "C13": {
        "text": "spatial_grid.Index construction, removal and nearest() are executed on paths whose end points and the query are unbounded "
                "symbolic reals, for concrete grid sizes, both reversal settings and every removal subset; per path z3 (QF_NRA) proves "
                "the construction invariant (each live end in exactly one cell, the cell given by the independently restated half-open "
                "rule, lookup agrees, adjacency = 3x3 neighbourhood) and the nearest() contract (live id, start unless reversal, no live end "
                "of the query's neighbourhood - or anywhere when it is empty - strictly closer; true nearest within one cell width). Cases with two ends are also run after another index was built and queried in the same interpreter.",
        "note": "path ends <= 2, bins <= 3 plus one 4 x 4 case (quick) / bins <= 4 with removals and reversal (thorough); exact-real model of the bin arithmetic; non-zero extent assumed; "
                "sequences of removals covered by running nearest() after every removal subset",
        "technique": "symbolic execution of the Python source on z3 real terms (solver-guided concretisation of bin indices) + SMT (QF_NRA) obligations per path, counterexample replay",
    },
    "C14": {
        "text": "Two layers. End to end: rtree.Index construction + intersection on N <= 2 boxes and a query with all coordinates "
                "unbounded symbolic reals (degenerate boxes allowed): z3 (QF_LRA) proves per path, for every id, returned <=> boxes share "
                "a point. Inductive step on one node (children stubbed): (A) a node built from up to 3 (thorough 4) symbolic boxes has "
                "extent = bounding box, a leaf keeps all boxes, a split node hands every box to >= 1 strictly shorter child list "
                "(termination); (B) a query visits exactly the children whose arbitrary symbolic extent overlaps the query and reports "
                "exactly the overlapping leaf boxes. A+B give trees of any size by induction on the height. A failed lemma is never "
                "reported as such: its model is lifted (far-away boxes, all list orders, probing queries; then by the solver with the model's boxes concrete and one or two further symbolic boxes) to an end-to-end brute-force "
                "mismatch on the real code first. End-to-end cases are also run after other indexes were built and queried in the same interpreter. A deep tree (8 boxes pinned in a geometric row, thorough also 12; n - 1 levels) is queried with a symbolic box end to end.",
        "note": "exact-real model of the mean-centre arithmetic; min/max as If-terms; the induction composing lemmas A and B is a paper "
                "argument; node fan-in of the step lemmas bounded by 3/4 boxes",
        "technique": "symbolic execution of the Python source on z3 real terms + SMT (QF_LRA) obligations per path; inductive-step lemmas with counterexample lifting and replay",
    },
    "C15": {
        "text": "Reported versions are symbolic digit strings inside the real banner; both min_version layers, EBB3.connect (solver-chosen "
                "handshake: empty / non-EBB / banner / SerialException per probe, open failure, no board; fresh and re-used object) and "
                "the five legacy gated helpers (V answered by a version, OK, Err, nothing, or a banner without version) are executed "
                "symbolically; results, transmitted commands and error state are proved equivalent to numeric component-wise order "
                "against each threshold, so a lexicographic comparison or a gate that lets an unknown version through is a counterexample. Gated helpers are also run after an up-to-date board was used on the same device path; version components have up to 3 digits. An object whose connect() was refused for old firmware is asked to connect again and is then sent a command: the retry must not be True-without-error and nothing beyond the version probes may be written.",
        "note": "packaging.version.parse replaced by a reference parser yielding integer terms (validated against packaging on ~1400 pairs "
                "each run); three components of 1-2 symbolic digits; serial.Serial/comports stubbed",
        "technique": "symbolic execution of the Python source on symbolic strings + SMT (linear integer arithmetic) obligations per path, counterexample replay",
    },
    "C16": {
        "text": "The variable, nickname and motor-enable helpers run through the real command/query code against a simulated board whose "
                "state is symbolic (RAM = z3 array with arbitrary contents; mode, motor flags, single-motor option arbitrary; nickname "
                "symbolic string). Replies carry numbers as tokens, so what the library parses back is a term: the int32 round trip, "
                "big-endian byte layout, untouched other slots, trimmed nickname and the motor-state/mode clauses are proved for all "
                "values and all prior board states at once (one inductive step per operation). motors_enable is also run after an earlier request on the same object followed by an arbitrary change of the board state (power cycle), and (thorough) after two earlier requests. The int32 step is also run after two earlier writes (int32 + int32, int32 + single byte) at arbitrary slots on the same object.",
        "note": "the board model (class Board in checks/c16.py, transcribed from the docstrings/EBB reference) is the trusted base; "
                "int.to_bytes/from_bytes stubbed as div/mod terms and differentially tested against CPython each run; nicknames of <= 4 printable ASCII characters not containing the reserved text 'Err:'",
        "technique": "symbolic execution of the Python source against a symbolic-state device model (z3 arrays, integer terms, token strings) + SMT obligations per path, counterexample replay",
    },
    "C17": {
        "text": "max_rate_t3 (with the rate_t3 calls it makes) is executed on symbolic rate/accel/jerk for each T of a list up to 64 (quick) / "
                "256 (thorough); the vertex time is an exact rational with symbolic denominator, ceil() a fresh integer concretised by "
                "forking. Every evaluated tick is proved to lie in 1..T (so reported <= true peak), reported >= |R(1)|,|R(T)|, and no tick "
                "k in 1..T has |R(k)| > reported + |jerk| (quantifier over k unrolled; R = closed form proved in C02). Selected durations are also run after an earlier call with the same rate/accel/jerk and another duration. Thorough tier: T = 1024 and 2048 with the turning point confined to 9 ticks at the start, middle or end of the move.",
        "note": "T enumerated (not symbolic); binary64 operations of rate_t3 exact under |jerk|T^2,|accel|T < 2^40 (proved per operation); "
                "rounding of t_mid itself is a paper argument",
        "technique": "symbolic execution of the Python source on z3 integer terms (rationals with symbolic denominator) + SMT (linear integer arithmetic after concretising the tick) obligations per path, counterexample replay",
    },
    "C18": {
        "text": "Bounded-free symbolic execution of the four limit helpers over unbounded reals; every path's result, range "
                "membership and flag are proved equal to the clamp/outlier specification by z3 (QF_LRA, unsat = holds for "
                "all reals); counterexamples are replayed on the unmodified module with exact Fractions. point_in_bounds is also run after earlier calls on the same list objects edited in place.",
        "note": "floats modelled as exact reals (no NaN/inf, no binary64 rounding of bound+-tolerance); min/max modelled as "
                "If-terms; preconditions lower<=upper, tol>=0",
        "technique": "symbolic execution of the Python source on z3 terms + SMT (QF_LRA) obligations per path, counterexample replay",
    },
    "C19": {
        "text": "comports is replaced by a stub returning descriptor tuples of symbolic strings (six descriptor kinds per port, symbolic "
                "names/tags/port digits); the eight discovery functions of both layers are executed on 0..2 (thorough: 3) ports; first-match, "
                "listing and reported names are proved equal to the restated rules, and lookups by reported name / serial tag / port name "
                "with a symbolic case flip per character are proved to return the chosen board unless an earlier port matches, to return "
                "only listed ports, and to agree between layers (SNR= apart). First-board discovery on an EBB3 object is also run after an earlier discovery with a shorter port list.",
        "note": "descriptor templates and the restated match predicate are the trusted base; names 3 (thorough: 3-4) chars over letters, "
                "digits, space, underscore; ASCII",
        "technique": "symbolic execution of the Python source on symbolic strings + SMT obligations per path, counterexample replay",
    },
    "C20": {
        "text": "xml_escape is executed on symbolic strings (every character any XML-legal code point, symbolic): the output is proved free "
                "of bare specials, every & proved to start a reference, and a reference XML reader - line-end normalisation, "
                "attribute-value normalisation, the five predefined entities and numeric character references; validated against lxml "
                "and ElementTree in element content and both attribute quotings each run - proved to read back the input, in element "
                "content and in an attribute value. One known finding is listed (TAB / LF / CR are left bare and are normalised by the "
                "parser); counterexamples outside it are violations. format_hms is executed on a symbolic duration (ms integer / k/1000 s "
                "/ integer s up to 10^7 s); "
                "the text decodes to literals and (term, spec) tokens which are proved to encode the duration rounded to the nearest "
                "second with fields in 00..59 and the form chosen by the rounded value; ms and s inputs give the same text. Milliseconds are also given with two decimals; rendered numbers are compared through a canonical digit-group model, so different format specs that print the same digits are recognised as equal. Long texts (10 characters, thorough 9..24) are covered by a one-free-character family: every position but one pinned to the five special characters in turn.",
        "note": "string length <= 4 (quick) / 5 (thorough); C-level number rendering "
                "is a token (term+spec); exact-real model of duration/1000.0; code that hands the symbolic string to a C-level matcher "
                "the shims do not model is reported INCONCLUSIVE, not decided",
        "technique": "symbolic execution of the Python source on symbolic strings / rationals + SMT obligations per path, counterexample replay",
    },
}
NOT_APPLICABLE = {}
SEED_NOTES = ("Solver-based checking of the real code: every check symbolically executes the functions of /repo's "
              "current working tree (source read at run time) and discharges the property as SMT obligations per path; "
              "bounds, stubs and what lies outside are in DESIGN.md section 3 and repeated in each evidence file. "
              "Exit codes: 0 held / only known findings; 1 VIOLATION (replayed on the real code); 3 harness error. "
              "Known findings and the record of repaired defects: known_findings.json (one open finding, C20-xml-whitespace; "
              "12 'fixed:' records that suppress nothing).")
