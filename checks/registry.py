"""Single source of truth for MANIFEST.json (see tools_manifest.py)."""
CHECKS = {
    "C08": {
        "text": "Symbolic execution of clip_segment/clip_code over eight unbounded reals: all feasible loop unrollings "
                "(0-4 clips) are explored; on every path accept/reject, on-segment, orientation, inside and coverage are "
                "proved by z3 nlsat (QF_NRA, fresh solver per query); a reachable division by zero or fail-safe exit "
                "would surface as a satisfiable obligation. Counterexamples are replayed with exact Fractions.",
        "note": "exact-real model of binary64 (tolerance of the statement is 0 here; rounding not analysed); xmin<=xmax, "
                "ymin<=ymax assumed; at most 400 decisions per path (never hit)",
        "technique": "symbolic execution of the Python source on z3 real terms + SMT (QF_NRA) obligations per path, counterexample replay",
    },
    "C18": {
        "text": "Bounded-free symbolic execution of the four limit helpers over unbounded reals; every path's result, range "
                "membership and flag are proved equal to the clamp/outlier specification by z3 (QF_LRA, unsat = holds for "
                "all reals); counterexamples are replayed on the unmodified module with exact Fractions.",
        "note": "floats modelled as exact reals (no NaN/inf, no binary64 rounding of bound+-tolerance); min/max modelled as "
                "If-terms; preconditions lower<=upper, tol>=0",
        "technique": "symbolic execution of the Python source on z3 terms + SMT (QF_LRA) obligations per path, counterexample replay",
    },
}
NOT_APPLICABLE = {}
SEED_NOTES = ("Solver-based checking of the real code: every check symbolically executes the functions of /repo's "
              "current working tree (source read at run time) and discharges the property as SMT obligations per path; "
              "bounds, stubs and what lies outside are in DESIGN.md section 3 and repeated in each evidence file. "
              "Exit codes: 0 held / only known findings; 1 VIOLATION (replayed on the real code); 3 harness error.")
