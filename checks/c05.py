"""C05 - EBB3 command/query framing and fault handling.

Part A: EBB3.command / EBB3.query are run on a symbolic request string (symbolic letters, arguments and
surrounding whitespace; the shape - 1 or 2 letter name, with or without arguments - is enumerated)
against a scripted port: a symbolic number E of blank reads, then a symbolic reply line, a raised
exception or nothing; or a failing write.  The oracle restates the framing rule; the solver proves the
written bytes, the number of reads consumed (alignment), the return value and the error latch.

Part B: every public request method (found by introspection) is run against a conforming board with a
fault of each kind injected at a solver-chosen request: no exception may escape, the failure must be
latched and reported by a failure value."""
import inspect

import serial
import z3

from pysx import engine, loader, stack
from pysx.harness import CheckBase, main, run_pinned
from pysx.serialmodel import FakePort, future_conforming, command_name
from pysx.strs import SymStr, SymBytes, zand, zor, ch_eq
from pysx.values import SymInt, SymBool, mkbool

R = 1 << 31
WSCH = (32, 9, 13, 10)
IGNORED = ("rb", "r", "bl")
STR_PARAMS = {"cmd", "qry", "nickname", "message", "given_name", "caller", "version_string", "ebb_version_string", "name"}
EXEMPT_B = {"connect", "disconnect", "find_first", "record_error", "parse_version", "min_version", "command", "query"}
SHAPES = {"N": (1, 0), "N,a": (1, 1), "NN": (2, 0), "NN,a": (2, 2)}
FAULTS = ["none", "timeout", "err-line", "err-line-with-name", "wrong-name", "read-exception", "write-exception"]


def letter(run, name):
    c = run.fresh_int(name)
    run.inputs[name] = c
    run._add(z3.And(c >= 65, c <= 122, z3.Or(c <= 90, c >= 97)))
    return c


def ch_from(run, name, codes):
    c = run.fresh_int(name)
    run.inputs[name] = c
    run._add(z3.Or([c == k for k in codes]))
    return c


REPLY_ALPHA = [ord(x) for x in "Er:,!0123456789 -"]


def is_failure(v):
    return v is None or v is False or (isinstance(v, tuple) and all(x is None for x in v))


def public_methods(cls):
    return sorted(n for n, f in inspect.getmembers(cls, predicate=inspect.isfunction) if not n.startswith("_"))


def model_str(inputs, prefix, n):
    return "".join(chr(int(inputs["%s%d" % (prefix, i)])) for i in range(n) if "%s%d" % (prefix, i) in inputs)


class Check(CheckBase):
    pid = "C05"
    title = "EBB3 command/query framing and fault handling"
    bounds = {"quick": {"request": "1- or 2-letter name (letters symbolic over A-Za-z), 0-2 symbolic argument characters, 0/1 symbolic whitespace "
                        "character on each side", "blank reads before the reply": "E in [0,2] u [24,27] (symbolic), blank = b'' or CRLF",
                        "reply": "1, 4 or 6 symbolic characters + CRLF", "faults": "reply / exception (SerialException or OSError) at read E / "
                        "timeout / write raising", "callers": "each public request method, fault of each kind at each of its requests"},
              "thorough": {"request": "as quick", "blank reads before the reply": "E in [0,27] (symbolic)",
                           "reply": "1..8 symbolic characters + CRLF", "faults": "as quick", "callers": "as quick"}}
    outside = ["the empty request string (IndexError in the name extraction; not in the quantifier)", "non-ASCII bytes from the device",
               "replies that carry the right name but malformed data (e.g. QL without a number)",
               "requests named RB / R / BL: the code deliberately ignores I/O exceptions for them (no error recorded)",
               "connect/disconnect (C15, C04)"]
    stubs = ["fake port scripted by symbolic variables", "conforming replies QC,0394,0300 / QE,16,16 / QS,12,-34 / PI,1 / QL,5 / QT,name / QG,3E, echo of the name otherwise"]
    assumptions = ["a read counts as empty when it is empty after strip() (b'' or whitespace only)"]

    def functions_encoded(self):
        e3, m3 = stack.load_ebb3()
        d = loader.encoded("ebb3_serial", public_methods(e3.EBB3))
        d.update(loader.encoded("ebb3_motion", public_methods(m3.EBBMotionWrap)))
        return d

    def cases(self, tier):
        cs = []
        lens = (1, 4, 6) if tier == "quick" else (1, 2, 3, 4, 5, 6, 7, 8)
        for fn in ("command", "query"):
            for shape in SHAPES:
                for ws in ((0, 0), (1, 1)) if tier == "quick" else ((0, 0), (1, 0), (0, 1), (1, 1)):
                    for L in lens:
                        cs.append({"label": "A/%s/%s/ws%d%d/L%d" % (fn, shape, ws[0], ws[1], L), "part": "A", "fn": fn, "shape": shape,
                                   "ws": ws, "L": L, "tier": tier})
                    cs.append({"label": "A/%s/%s/ws%d%d/nofault-free" % (fn, shape, ws[0], ws[1]), "part": "A", "fn": fn, "shape": shape,
                               "ws": ws, "L": 0, "tier": tier})
            # the same request after earlier successful requests on the same object (no state may carry over)
            for prior in ("query-after-15-blank-reads", "command-after-25-blank-reads"):
                for shape in ("N", "NN,a"):
                    cs.append({"label": "A/%s/%s/ws00/L4/after-%s" % (fn, shape, prior), "part": "A", "fn": fn, "shape": shape,
                               "ws": (0, 0), "L": 4, "tier": tier, "prior": prior})
        e3, m3 = stack.load_ebb3()
        for m in public_methods(m3.EBBMotionWrap):
            if m in EXEMPT_B:
                continue
            for f in FAULTS:
                if m in ("reboot", "bootload") and f not in ("none", "write-exception"):
                    continue      # fire-and-forget: they never read, so only a failing write is a fault for them
                cs.append({"label": "B/%s/%s" % (m, f), "part": "B", "method": m, "fault": f})
        return cs

    def config(self, tier, case):
        return engine.Config(max_decisions=300)

    def expected_reach(self, tier):
        return ["A:success", "A:reply-rejected", "A:timeout", "A:read-exception", "A:write-exception", "B:fault-injected", "B:no-fault"]

    # ------------------------------------------------------------------------------------------------
    def harness(self, run, case):
        if case["part"] == "A":
            return self.harness_a(run, case)
        return self.harness_b(run, case)

    def harness_a(self, run, case):
        e3, m3 = stack.load_ebb3()
        obj = e3.EBB3()
        nlen, alen = SHAPES[case["shape"]]
        name = [letter(run, "n%d" % i) for i in range(nlen)]
        body = list(name)
        if alen:
            body.append(",")
            body += [ch_from(run, "a%d" % i, [ord(x) for x in "0123456789,-AZaz"]) for i in range(alen)]
            if alen:
                # the trimmed text must not end in whitespace (it would be trimmed): arguments are non-blank here
                pass
        lead = [ch_from(run, "lw%d" % i, WSCH) for i in range(case["ws"][0])]
        trail = [ch_from(run, "tw%d" % i, WSCH) for i in range(case["ws"][1])]
        request = SymStr(lead + body + trail)
        nm = SymStr(name)
        L = case["L"]
        E = run.int("E", 0, 27)
        if case["tier"] == "quick":
            run.assume(z3.Or(E.t <= 2, E.t >= 24))
        blank_crlf = run.bool("blank_is_crlf")
        # what happens at read number E (if it is reached): 0 reply, 1 SerialException, 2 OSError
        if L == 0:
            kind = 3   # nothing ever arrives (pure timeout) unless the write fails
            wfault = run.choose(3, "wfault")   # 0 none, 1 SerialException, 2 OSError on write
        else:
            kind = run.choose(3, "kind")
            wfault = 0
        reply = None
        if L:
            rc = []
            for i in range(L):
                c = run.fresh_int("r%d" % i)
                run.inputs["r%d" % i] = c
                # reply characters: the request's own letters or a fixed alphabet
                run._add(z3.Or([c == k for k in REPLY_ALPHA] + [c == x for x in name]))
                rc.append(c)
            run._add(z3.And([rc[0] != w for w in (32, 9, 10, 11, 12, 13, 28, 29, 30, 31)]))   # a reply line is not blank
            reply = SymStr(rc)
        state = {"after": 0}

        def on_write(port, payload):
            if wfault == 1:
                raise serial.SerialException("write failed")
            if wfault == 2:
                raise OSError("write failed")

        base = {"reads": 0}

        def responder(port):
            if base.get("prior") is not None:
                k = port.n_reads - 1
                return b"" if k < base["prior"][0] else base["prior"][1]
            i = port.n_reads - 1 - base["reads"]
            if run.branch(z3.IntVal(i) < E.t):
                return b"\r\n" if run.branch(blank_crlf.t) else b""
            if state["after"] or kind == 3:
                state["after"] += 1
                return b""            # nothing more in the stream (reads here would be over-reads of the next reply)
            state["after"] = 1
            if kind == 1:
                raise serial.SerialException("read failed")
            if kind == 2:
                raise OSError("read failed")
            return SymBytes(reply + "\r\n")
        port = FakePort(responder=responder, on_write=on_write, sym=True)
        obj.port = port
        tag = "A/%s" % case["fn"]
        if case.get("prior"):
            if case["prior"].startswith("query"):
                base["prior"] = (15, b"QS,1,2\r\n")
                ok0 = obj.query("QS") is not None
            else:
                base["prior"] = (25, b"SM\r\n")
                ok0 = obj.command("SM,1,0,0") is True
            base["prior"] = None
            assert ok0 and obj.err is None, "the earlier request must succeed against a conforming device"
            base["reads"] = port.n_reads
            port.writes[:] = []
            port.n_reads_main0 = port.n_reads
        try:
            ret = getattr(obj, case["fn"])(request)
        except Exception as ex:
            run.prove(tag + ":no-exception-escapes", z3.BoolVal(False), info={"raised": repr(ex)[:200]})
            return
        err = obj.err
        nm_low = nm.lower()
        ignored = zor(nm_low.eq_term(x) for x in IGNORED)
        ignored = z3.BoolVal(ignored) if isinstance(ignored, bool) else ignored
        # ---- framing: exactly one write of trimmed text + CR ------------------------------------------------
        if wfault == 0:
            ok = len(port.writes) == 1
            t = port.writes[0].eq_term(SymStr(body + ["\r"])) if ok else False
            run.prove(tag + ":writes-trimmed-text-plus-CR-once", t if not isinstance(t, bool) else z3.BoolVal(t),
                      info={"written": [repr(w) for w in port.writes]})
        else:
            run.prove(tag + ":nothing-written-after-failed-write", z3.BoolVal(len(port.writes) == 0))
        err_set = err is not None
        if err_set:
            run.prove(tag + ":error-is-text", z3.BoolVal(isinstance(err, (str, SymStr))))
        fn = case["fn"]
        if wfault:
            run.reach("A:write-exception")
            run.prove(tag + ":write-fault:reads-nothing", z3.BoolVal(port.n_reads - base["reads"] == 0))
            if fn == "command":
                run.prove(tag + ":write-fault:latched-unless-ignored-name", z3.BoolVal(err_set) == z3.Not(ignored))
                run.prove(tag + ":write-fault:returns-False-iff-latched", z3.BoolVal(ret is (not err_set)))
            else:
                run.prove(tag + ":write-fault:latched", z3.BoolVal(err_set))
                run.prove(tag + ":write-fault:returns-None", z3.BoolVal(ret is None))
            return
        # ---- number of reads consumed (alignment) ----------------------------------------------------------------
        expected_reads = z3.IntVal(26) if kind == 3 else z3.If(E.t >= 26, 26, E.t + 1)
        run.prove(tag + ":reads-consumed", z3.IntVal(port.n_reads - base["reads"]) == expected_reads, info={"reads": port.n_reads - base["reads"]})
        timeout = E.t >= 26
        if run.branch(timeout) or kind == 3:
            run.reach("A:timeout")
            run.prove(tag + ":timeout:latched", z3.BoolVal(err_set))
            run.prove(tag + ":timeout:failure-value", z3.BoolVal(ret is (False if fn == "command" else None)))
            return
        if kind in (1, 2):
            run.reach("A:read-exception")
            if fn == "command":
                run.prove(tag + ":read-fault:latched-unless-ignored-name", z3.BoolVal(err_set) == z3.Not(ignored))
                run.prove(tag + ":read-fault:returns-False-iff-latched", z3.BoolVal(ret is (not err_set)))
            else:
                run.prove(tag + ":read-fault:latched", z3.BoolVal(err_set))
                run.prove(tag + ":read-fault:returns-None", z3.BoolVal(ret is None))
            return
        # ---- a reply line arrived -----------------------------------------------------------------------------
        resp = reply.rstrip()      # first character is non-blank; CRLF already dropped
        starts = resp.startswith(nm)
        has_err = resp.contains_term("Err:")
        st = starts.t if isinstance(starts, SymBool) else z3.BoolVal(starts)
        he = z3.BoolVal(has_err) if isinstance(has_err, bool) else has_err
        success = z3.And(st, z3.Not(he))
        run.prove(tag + ":latched-iff-reply-rejected", z3.BoolVal(err_set) == z3.Not(success))
        if fn == "command":
            run.prove(tag + ":returns-True-iff-success", z3.BoolVal(ret is True) == success)
            run.prove(tag + ":returns-bool", z3.BoolVal(ret is True or ret is False))
            run.reach("A:success" if not err_set else "A:reply-rejected")
        else:
            if ret is None:
                run.reach("A:reply-rejected")
                run.prove(tag + ":None-only-when-rejected", z3.Not(success))
            else:
                run.reach("A:success")
                run.prove(tag + ":value-only-when-accepted", success)
                # expected text: reply minus the name and one separating comma
                rest = resp[len(nm):]
                if len(rest) and run.branch(_term(ch_eq(rest.e[0], ","))):
                    rest = rest[1:]
                ok = isinstance(ret, (str, SymStr))
                t = (SymStr(tuple(ret)) if isinstance(ret, str) else ret).eq_term(rest) if ok else False
                run.prove(tag + ":returns-reply-minus-name-and-comma", t if not isinstance(t, bool) else z3.BoolVal(t),
                          info={"returned": repr(ret)})

    def harness_b(self, run, case):
        e3, m3 = stack.load_ebb3()
        obj = m3.EBBMotionWrap()
        method, fault = case["method"], case["fault"]
        # the fault is injected at a solver-chosen request index (0..5) of the method
        at = run.int("fault_at_request", 0, 5) if fault != "none" else None
        st = {"req": -1, "injected": False, "mode": None, "writes_after": 0}

        def on_write(port, payload):
            st["req"] += 1
            port.queue = []
            st["mode"] = None
            if st["injected"]:
                st["writes_after"] += 1
            if at is not None and not st["injected"] and run.branch(z3.IntVal(st["req"]) == at.t):
                st["injected"] = True
                st["mode"] = fault
                if fault == "write-exception":
                    raise serial.SerialException("write failed")
                name = command_name(payload)
                if fault == "err-line":
                    port.queue.append(b"!8 Err: bad\r\n")
                elif fault == "err-line-with-name":
                    port.queue.append((name + ",Err: bad\r\n").encode("ascii"))
                elif fault == "wrong-name":
                    port.queue.append(b"ZZ,1\r\n")
                return
            future_conforming_b(port, payload)

        def responder(port):
            if st["mode"] == "read-exception":
                raise serial.SerialException("read failed")
            if st["mode"] == "timeout":
                return b""
            return port.queue.pop(0) if port.queue else b""
        port = FakePort(responder=responder, on_write=on_write, sym=True)
        obj.port = port
        obj.version = "3.0.2"
        obj.version_parsed = e3.parse("3.0.2")
        fn = getattr(obj, method)
        args = []
        for pname in inspect.signature(fn).parameters:
            if pname in STR_PARAMS:
                cs = [ch_from(run, "%s%d" % (pname, i), [ord(x) for x in "abAB1 _"]) for i in range(3)]
                args.append(SymStr(cs))
            elif pname in ("resolution_1", "resolution_2"):
                args.append(run.int(pname, -1, 6))
            elif pname == "pause_time":
                args.append(run.int(pname, -1, 2000))
            elif pname == "value" and method == "var_write_int32":
                args.append(run.int(pname, -(1 << 31), (1 << 31) - 1))
            elif pname == "threshold":
                args.append(None)
            else:
                args.append(run.int(pname, -R, R))
        tag = "B/%s/%s" % (method, fault)
        try:
            ret = fn(*args)
        except Exception as ex:
            run.prove(tag + ":no-exception-escapes", z3.BoolVal(False), info={"raised": repr(ex)[:200], "fault_injected": st["injected"]})
            return
        if st["injected"]:
            run.reach("B:fault-injected")
            exempt = method in ("reboot", "bootload")     # fire-and-forget by design: report through the return value only
            if not exempt:
                run.prove(tag + ":failure-latched", z3.BoolVal(obj.err is not None))
            run.prove(tag + ":failure-value-returned", z3.BoolVal(is_failure(ret)), info={"returned": repr(ret)[:100]})
            if not exempt:
                run.prove(tag + ":nothing-transmitted-after-the-recorded-failure", z3.BoolVal(st["writes_after"] == 0),
                          info={"writes_after_fault": st["writes_after"]})
        else:
            run.reach("B:no-fault")
            run.prove(tag + ":no-error-without-fault", z3.BoolVal(obj.err is None), info={"err": repr(obj.err)[:200]})

    # ------------------------------------------------------------------------------------------------
    def replay(self, cex):
        e3, m3 = loader.native("ebb3_serial"), loader.native("ebb3_motion")
        case = next(c for c in self.cases("thorough") + self.cases("quick") if c["label"] == cex["case"])
        i = cex["inputs"]
        if case["part"] == "B":
            return self.replay_b(cex, case, m3, e3)
        nlen, alen = SHAPES[case["shape"]]
        name = model_str(i, "n", nlen)
        body = name + ("," + model_str(i, "a", alen) if alen else "")
        request = model_str(i, "lw", 1) + body + model_str(i, "tw", 1)
        E = int(i["E"])
        L = case["L"]
        reply = model_str(i, "r", L)
        kind = 3 if L == 0 else _choice(i, "kind")
        wfault = _choice(i, "wfault") if L == 0 else 0
        blank = b"\r\n" if i.get("blank_is_crlf") in (True, "True") else b""
        state = {"after": 0}

        def on_write(port, payload):
            if wfault == 1:
                raise serial.SerialException("write failed")
            if wfault == 2:
                raise OSError("write failed")

        base = {"reads": 0, "prior": None}

        def responder(port):
            if base["prior"] is not None:
                return b"" if port.n_reads - 1 < base["prior"][0] else base["prior"][1]
            k = port.n_reads - 1 - base["reads"]
            if k < E:
                return blank
            if state["after"] or kind == 3:
                state["after"] += 1
                return b""
            state["after"] = 1
            if kind == 1:
                raise serial.SerialException("read failed")
            if kind == 2:
                raise OSError("read failed")
            return (reply + "\r\n").encode("ascii")
        obj = e3.EBB3()
        port = FakePort(responder=responder, on_write=on_write)
        obj.port = port
        fn = case["fn"]
        if case.get("prior"):
            if case["prior"].startswith("query"):
                base["prior"] = (15, b"QS,1,2\r\n")
                obj.query("QS")
            else:
                base["prior"] = (25, b"SM\r\n")
                obj.command("SM,1,0,0")
            base["prior"] = None
            base["reads"] = port.n_reads
            port.writes[:] = []
            if obj.err is not None:
                return {"earlier_request_failed": obj.err}
        try:
            ret = getattr(obj, fn)(request)
        except Exception as ex:
            return {"request": request, "raised": repr(ex)}
        got = {"written": [w.concrete_str() for w in port.writes], "reads": port.n_reads - base["reads"], "ret": ret, "err": obj.err is not None}
        ignored = name.lower() in IGNORED
        exp = {}
        if wfault:
            exp = {"written": [], "reads": 0}
            if fn == "command":
                exp["err"] = not ignored
                exp["ret"] = ignored
            else:
                exp["err"], exp["ret"] = True, None
        else:
            exp["written"] = [body + "\r"]
            exp["reads"] = 26 if (E >= 26 or kind == 3) else E + 1
            if E >= 26 or kind == 3:
                exp["err"], exp["ret"] = True, (False if fn == "command" else None)
            elif kind in (1, 2):
                if fn == "command":
                    exp["err"], exp["ret"] = (not ignored), ignored
                else:
                    exp["err"], exp["ret"] = True, None
            else:
                resp = reply.strip()
                success = resp.startswith(name) and "Err:" not in resp
                exp["err"] = not success
                if fn == "command":
                    exp["ret"] = success
                else:
                    if success:
                        rest = resp[len(name):]
                        exp["ret"] = rest[1:] if rest[:1] == "," else rest
                    else:
                        exp["ret"] = None
        if got != exp:
            return {"request": request, "E": E, "reply": reply, "kind": kind, "wfault": wfault, "got": got, "expected": exp}
        return None

    def replay_b(self, cex, case, m3, e3):
        method, fault = case["method"], case["fault"]
        i = cex["inputs"]
        at = int(i.get("fault_at_request", -1))
        st = {"req": -1, "injected": False, "mode": None, "writes_after": 0}

        def on_write(port, payload):
            st["req"] += 1
            port.queue = []
            st["mode"] = None
            if st["injected"]:
                st["writes_after"] += 1
            if fault != "none" and not st["injected"] and st["req"] == at:
                st["injected"] = True
                st["mode"] = fault
                if fault == "write-exception":
                    raise serial.SerialException("write failed")
                name = command_name(payload)
                if fault == "err-line":
                    port.queue.append(b"!8 Err: bad\r\n")
                elif fault == "err-line-with-name":
                    port.queue.append((name + ",Err: bad\r\n").encode("ascii"))
                elif fault == "wrong-name":
                    port.queue.append(b"ZZ,1\r\n")
                return
            future_conforming_b(port, payload)

        def responder(port):
            if st["mode"] == "read-exception":
                raise serial.SerialException("read failed")
            if st["mode"] == "timeout":
                return b""
            return port.queue.pop(0) if port.queue else b""
        obj = m3.EBBMotionWrap()
        port = FakePort(responder=responder, on_write=on_write)
        obj.port = port
        obj.version = "3.0.2"
        obj.version_parsed = e3.parse("3.0.2")
        fn = getattr(obj, method)
        args = []
        for pname in inspect.signature(fn).parameters:
            if pname in STR_PARAMS:
                args.append(model_str(i, pname, 3))
            elif pname == "threshold":
                args.append(None)
            else:
                args.append(int(i.get(pname, 0)))
        try:
            ret = fn(*args)
        except Exception as ex:
            return {"call": "%s%r" % (method, tuple(args)), "fault": fault, "at_request": at, "raised": repr(ex)}
        if st["injected"]:
            bad = {}
            if method not in ("reboot", "bootload") and obj.err is None:
                bad["err"] = None
            if not is_failure(ret):
                bad["returned"] = repr(ret)
            if method not in ("reboot", "bootload") and st["writes_after"]:
                bad["writes_after_fault"] = st["writes_after"]
            if bad:
                bad.update({"call": "%s%r" % (method, tuple(args)), "fault": fault, "at_request": at})
                return bad
        elif obj.err is not None:
            return {"call": "%s%r" % (method, tuple(args)), "err_without_fault": obj.err}
        return None

    def validate(self, tier, seed):
        """Pinned-symbolic command/query on constant requests and replies agree with the native methods."""
        import random
        rnd = random.Random(seed)
        e3n = loader.native("ebb3_serial")
        n = 0
        table = [("QS", b"QS,12,-34\r\n"), (" v ", b"v3\r\n"), ("SM,1,0,0", b"SM\r\n"), ("QL,3", b"QL,7\r\n"), ("X", b"\r\n"),
                 ("EM,1,1", b"!8 Err: no\r\n"), ("QT", b"QT,\r\n"), ("QG", b"QG,3E\r\n"), ("r", b""), ("SL,1,2", b"SL,Err: x\r\n")]
        for req, rep in table:
            for fn in ("command", "query"):
                for empties in (0, 1, 25, 26):
                    def session(mod, sym):
                        obj = mod.EBB3()
                        seq = [b""] * empties + [rep]

                        def responder(port):
                            k = port.n_reads - 1
                            line = seq[k] if k < len(seq) else b""
                            return SymBytes(SymStr(tuple(line.decode("ascii")))) if sym else line
                        port = FakePort(responder=responder)
                        obj.port = port
                        r = getattr(obj, fn)(SymStr(tuple(req)) if sym else req)
                        if isinstance(r, SymStr):
                            r = r.concretize()
                        return r, obj.err is not None, [w.concretize() if not w.is_concrete() else w.concrete_str() for w in port.writes], port.n_reads
                    exp = session(e3n, False)
                    got = run_pinned(lambda run: session(stack.load_ebb3()[0], True))
                    assert exp == got, "translator validation failed for %s(%r) reply %r: %r vs %r" % (fn, req, rep, exp, got)
                    n += 1
        return n


def _term(b):
    return z3.BoolVal(b) if isinstance(b, bool) else b


def _choice(inputs, prefix):
    for k, v in inputs.items():
        if k.startswith(prefix):
            return int(v)
    return 0


B_DATA = {"QC": "QC,0394,0300", "QE": "QE,16,16", "QS": "QS,12,-34", "PI": "PI,1", "QL": "QL,5", "QT": "QT,name", "QG": "QG,3E"}


def future_conforming_b(port, payload):
    name = command_name(payload)
    up = name.upper()
    port.queue.append(((B_DATA[up] if up in B_DATA else name) + "\r\n").encode("ascii"))


if __name__ == "__main__":
    main(Check())
