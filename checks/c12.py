"""C12 - length parsing and unit conversion are mutually consistent and follow SVG units.

parseLengthWithUnits, unitsToUserUnits, userUnitToUnits, getLength and getLengthInches are executed on
a symbolic string: optional blank, a numeral atom whose value is an unbounded symbolic real (or which
is flagged non-numeric), 0-2 symbolic suffix characters over the letters of all unit names (both
cases) plus e x %, optional blank.  Per path the solver proves the parse result, the SVG conversion
factor at 96 px/inch, the round trip and the agreement of the document-attribute readers; every
other text must give None without an exception."""
import random
from fractions import Fraction

import z3

from pysx import engine, loader, shims
from pysx.harness import CheckBase, main, run_pinned, concrete, test_rows
from pysx.strs import SymStr, Atom, zor
from pysx.values import SymReal, zreal

UNITS = {"": ("px", Fraction(1)), "px": ("px", Fraction(1)), "in": ("in", Fraction(96)), "mm": ("mm", Fraction(960, 254)),
         "cm": ("cm", Fraction(9600, 254)), "pt": ("pt", Fraction(96, 72)), "pc": ("pc", Fraction(96, 6)),
         "Q": ("Q", Fraction(960, 1016)), "q": ("Q", Fraction(960, 1016)), "%": ("%", None)}
SUFFIX_ALPHA = "pxinmctQq%eXPINMCT"
REL = Fraction(1, 10 ** 9)
# d = symbolic digit, s = symbolic sign (+ or -), e = symbolic e/E, '.' literal
NUM_SHAPES = ["d", "d.d", ".d", "sd", "ded", "desd", "d.", "sd.d", "d.dEsd", "dd"]


def load():
    return loader.load_plotink("plot_utils", shims.std_overrides(real_tower=True))


def approx(a, b):
    """|a - b| <= 1e-9 * |b|  (z3 terms)"""
    ab = z3.If(b >= 0, b, -b)
    return z3.And(a - b <= z3.RealVal(str(REL)) * ab, b - a <= z3.RealVal(str(REL)) * ab)


def approx_py(a, b):
    return abs(Fraction(a) - Fraction(b)) <= REL * abs(Fraction(b)) + Fraction(1, 10 ** 300)


class FakeSelf:
    def __init__(self, text):
        self._text = text

    @property
    def document(self):
        return self

    def getroot(self):
        return self

    def get(self, name, default=None):
        return self._text


def suffix_is(suf, u):
    return suf.eq_term(u)


class Check(CheckBase):
    pid = "C12"
    title = "length parsing and unit conversion"
    bounds = {"text": "blank(0-1) + numeral atom + suffix of 0, 1 or 2 symbolic characters over %r + blank(0-1); blanks symbolic over space/tab/newline" % SUFFIX_ALPHA,
              "value": "unbounded symbolic real (atom; may also be flagged non-numeric or be absent); and numerals spelled out with symbolic digits, signs and exponent marks in the shapes %s" % NUM_SHAPES, "percent reference / default": "symbolic real"}
    outside = ["inf, nan, infinity, digit separators, inner whitespace (float() accepts some of these: parseLengthWithUnits('nan') returns a value)",
               "binary64 rounding: equalities are up to relative 1e-9 because constants such as PX_PER_INCH / 25.4 are evaluated by CPython before they meet a symbolic value",
               "the digits of the numeral (atom: float(atom) is its value)"]
    stubs = ["float(atom) -> the atom's symbolic real or ValueError; float() of an atom with leftover characters -> ValueError", "altself.document.getroot().get -> the symbolic text"]
    assumptions = ["percent reference != 0 (the code treats a zero reference as absent)", "SVG unit factors at 96 px/in: in 96, mm 96/25.4, cm 96/2.54, pt 96/72, pc 96/6, Q 96/101.6, px and unit-less 1"]

    def functions_encoded(self):
        return loader.encoded("plot_utils", ["parseLengthWithUnits", "unitsToUserUnits", "userUnitToUnits", "getLength", "getLengthInches"])

    def cases(self, tier):
        cs = []
        for slen in (0, 1, 2):
            for lead, trail in ((0, 0), (1, 1)) if tier == "quick" else ((0, 0), (1, 0), (0, 1), (1, 1)):
                for atom in ("valid", "invalid", "absent"):
                    cs.append({"label": "s%d/ws%d%d/%s" % (slen, lead, trail, atom), "slen": slen, "ws": (lead, trail), "atom": atom})
        cs.append({"label": "none", "slen": 0, "ws": (0, 0), "atom": "none"})
        # numerals spelled out character by character (symbolic digits, signs and e/E) instead of an opaque atom
        for shape in NUM_SHAPES if tier == "thorough" else NUM_SHAPES[:6]:
            for slen in (0, 1, 2):
                cs.append({"label": "chars/%s/s%d" % (shape, slen), "slen": slen, "ws": (0, 1) if slen else (1, 0), "atom": "chars", "shape": shape,
                           "split_depth": 6})
        return cs

    def config(self, tier, case):
        return engine.Config(logic="QF_LRA", max_decisions=300)

    def expected_reach(self, tier):
        return ["unit:px", "unit:in", "unit:mm", "unit:cm", "unit:pt", "unit:pc", "unit:Q", "unit:%", "rejected", "none"]

    def harness(self, run, case):
        pu = load()
        if case["atom"] == "none":
            run.reach("none")
            ok = pu.parseLengthWithUnits(None) == (None, None) and pu.unitsToUserUnits(None) is None and pu.userUnitToUnits(None, "mm") is None \
                and pu.getLengthInches(FakeSelf(None), "width") is None and pu.getLengthInches(FakeSelf(""), "width") is None
            run.prove("None-text-gives-None", z3.BoolVal(bool(ok)))
            d = run.real("default")
            g = pu.getLength(FakeSelf(None), "width", d)
            run.prove("getLength:absent-attribute-gives-the-default", zreal(g) == d.t)
            return
        v = run.real("v")
        ws = (9, 10, 32)
        els = []
        for k in range(case["ws"][0]):
            c = run.fresh_int("lead%d" % k)
            run.inputs["lead%d" % k] = c
            run._add(z3.Or([c == x for x in ws]))
            els.append(c)
        if case["atom"] == "chars":
            num_chars = []
            for k, ch in enumerate(case["shape"]):
                c = run.fresh_int("num%d" % k)
                run.inputs["num%d" % k] = c
                if ch == "d":
                    run._add(z3.And(c >= 48, c <= 57))
                elif ch == "s":
                    run._add(z3.Or(c == 43, c == 45))
                elif ch in "eE":
                    run._add(z3.Or(c == 69, c == 101))
                else:
                    run._add(c == ord(ch))
                num_chars.append(c)
            els += num_chars
            v = SymStr(num_chars).to_float()        # the numeral's value by the (CPython-validated) float model
        elif case["atom"] != "absent":
            els.append(Atom("num", v, case["atom"] == "valid"))
        sc = []
        for k in range(case["slen"]):
            c = run.fresh_int("suf%d" % k)
            run.inputs["suf%d" % k] = c
            run._add(z3.Or([c == ord(x) for x in SUFFIX_ALPHA]))
            sc.append(c)
        els += sc
        for k in range(case["ws"][1]):
            c = run.fresh_int("trail%d" % k)
            run.inputs["trail%d" % k] = c
            run._add(z3.Or([c == x for x in ws]))
            els.append(c)
        text = SymStr(els)
        suf = SymStr(sc)
        ref = run.real("ref")
        run.assume(ref != 0)      # a zero reference length is treated as "no reference" by the code; outside the claim
        tag = "text"
        try:
            pv, punit = pu.parseLengthWithUnits(text)
            uu = pu.unitsToUserUnits(text)
            uu_ref = pu.unitsToUserUnits(text, ref)
            gl = pu.getLength(FakeSelf(text), "width", ref) if len(text) else None
            gi = pu.getLengthInches(FakeSelf(text), "width") if len(text) else None
        except Exception as ex:
            run.prove("no-exception", z3.BoolVal(False), info={"raised": repr(ex)[:200]})
            return
        is_unit = {u: suffix_is(suf, u) for u in UNITS if len(u) == len(sc)}
        supported = zor(list(is_unit.values())) if case["atom"] in ("valid", "chars") else False
        supported = z3.BoolVal(supported) if isinstance(supported, bool) else supported
        if pv is None:
            run.reach("rejected")
            run.prove("None-only-for-unsupported-or-non-numeric-text", z3.Not(supported))
            run.prove("rejected-text:all-converters-give-None", z3.BoolVal(punit is None and uu is None and uu_ref is None and gl is None and gi is None),
                      info={"unitsToUserUnits": repr(uu), "getLength": repr(gl), "getLengthInches": repr(gi)})
            return
        run.reach("unit:%s" % punit)
        run.prove("value-only-for-supported-numeric-text", supported)
        run.prove("parsed-value-is-the-numeral", zreal(pv) == v.t)
        cands = [u for u in UNITS if len(u) == len(sc) and UNITS[u][0] == punit]
        run.prove("parsed-unit-matches-the-suffix", z3.Or([tb(is_unit[u]) for u in cands]) if cands else z3.BoolVal(False), info={"unit": repr(punit)})
        if punit not in [x[0] for x in UNITS.values()]:
            return
        k = next(f for (nm, f) in UNITS.values() if nm == punit)
        if punit == "%":
            run.prove("percent:of-reference", z3.And(has(uu_ref), approx(zr(uu_ref), v.t * ref.t / 100)) if True else None, logic="QF_NRA")
            run.prove("percent:without-reference", z3.And(has(uu), approx(zr(uu), v.t / 100)))
            back = pu.userUnitToUnits(uu, "%") if uu is not None else None
            run.prove("percent:round-trip", z3.And(has(back), approx(zr(back), v.t)))
            run.prove("getLength:percent-of-default", z3.And(has(gl), approx(zr(gl), ref.t * v.t / 100)), logic="QF_NRA")
            run.prove("getLengthInches:percent-gives-None", z3.BoolVal(gi is None))
            return
        kk = z3.RealVal(str(k))
        run.prove("conversion-uses-the-SVG-factor", z3.And(has(uu), approx(zr(uu), v.t * kk), has(uu_ref), approx(zr(uu_ref), v.t * kk)), info={"unit": punit})
        for unit_string in [u for u in UNITS if UNITS[u][0] == punit]:
            back = pu.userUnitToUnits(uu, unit_string) if uu is not None else None
            run.prove("round-trip-returns-the-value", z3.And(has(back), approx(zr(back), v.t)), info={"unit": unit_string})
        run.prove("getLength:pixels", z3.And(has(gl), approx(zr(gl), v.t * kk)))
        run.prove("getLengthInches:inches", z3.And(has(gi), approx(zr(gi), v.t * kk / 96)))
        run.prove("getLength-equals-96-x-getLengthInches", z3.And(has(gl), has(gi), approx(zr(gl), zr(gi) * 96)))

    # ------------------------------------------------------------------------------------------------
    def replay(self, cex):
        pu = loader.native("plot_utils")
        case = next(c for c in self.cases("thorough") if c["label"] == cex["case"])
        i = cex["inputs"]
        if case["atom"] == "none":
            ok = pu.parseLengthWithUnits(None) == (None, None) and pu.unitsToUserUnits(None) is None and pu.getLengthInches(FakeSelf(None), "w") is None
            return None if ok else {"None handling": "wrong"}
        if case["atom"] == "chars":
            num = "".join(chr(int(i["num%d" % k])) for k in range(len(case["shape"])))
            vf = Fraction(float(num))
        else:
            v = Fraction(i["v"])
            # a numeral that float() reads back exactly when possible
            num = {"valid": repr(float(v)), "invalid": "1..2", "absent": ""}[case["atom"]]
            vf = Fraction(float(v)) if case["atom"] == "valid" else None
        lead = "".join(chr(int(i["lead%d" % k])) for k in range(case["ws"][0]))
        trail = "".join(chr(int(i["trail%d" % k])) for k in range(case["ws"][1]))
        suf = "".join(chr(int(i["suf%d" % k])) for k in range(case["slen"]))
        text = lead + num + suf + trail
        ref = float(Fraction(i.get("ref", 100)))
        try:
            pv, punit = pu.parseLengthWithUnits(text)
            uu, uu_ref = pu.unitsToUserUnits(text), pu.unitsToUserUnits(text, ref)
            gl = pu.getLength(FakeSelf(text), "width", ref) if text else None
            gi = pu.getLengthInches(FakeSelf(text), "width") if text else None
        except Exception as ex:
            return {"text": text, "raised": repr(ex)}
        desc = {"text": text, "parse": (pv, punit), "unitsToUserUnits": uu, "with_ref": uu_ref, "getLength": gl, "getLengthInches": gi}
        if vf is None or suf not in UNITS:
            return None if (pv is None and punit is None and uu is None and uu_ref is None and gl is None and gi is None) else desc
        unit, k = UNITS[suf]
        if pv != float(vf) or punit != unit:
            return desc
        if unit == "%":
            good = uu is not None and approx_py(uu, vf / 100) and uu_ref is not None and (approx_py(uu_ref, vf * Fraction(ref) / 100) if ref else True) and gi is None \
                and gl is not None and approx_py(gl, Fraction(ref) * vf / 100)
            back = pu.userUnitToUnits(uu, "%") if uu is not None else None
            good = good and back is not None and approx_py(back, vf)
            return None if good else dict(desc, round_trip=back)
        good = uu is not None and approx_py(uu, vf * k) and uu_ref is not None and approx_py(uu_ref, vf * k) and gl is not None and approx_py(gl, vf * k) \
            and gi is not None and approx_py(gi, vf * k / 96)
        backs = [pu.userUnitToUnits(uu, us) if uu is not None else None for us in UNITS if UNITS[us][0] == unit]
        good = good and all(b is not None and approx_py(b, vf) for b in backs)
        return None if good else dict(desc, round_trips=backs)

    def validate(self, tier, seed):
        """the repository's own parse/convert test inputs and random texts through the native functions and the
        shim-loaded ones (numeral as an atom with the same value)."""
        rnd = random.Random(seed)
        nat = loader.native("plot_utils")
        n = 0
        # the float(str) model against CPython (values and ValueError) on random numeral-like strings
        import re as real_re
        for _ in range(300):
            txt = "".join(rnd.choice("0123456789.+-eE 5") for _ in range(rnd.randint(0, 7)))
            if real_re.search(r"[eE][+-]?\d{3,}", txt):
                continue
            try:
                f = float(txt)
                if f != f or f in (float("inf"), float("-inf")):
                    continue
                want = Fraction(txt.strip())
            except ValueError:
                want = "ValueError"

            def hf(run):
                try:
                    return concrete(SymStr([z3.IntVal(ord(ch)) for ch in txt]).to_float())
                except ValueError:
                    return "ValueError"
            assert run_pinned(hf) == want, "float() model disagrees with CPython on %r" % txt
            n += 1
        samples = []
        for v in (0, 1, -2.5, 10, 25.4, 100):
            for suf in list(UNITS) + ["em", "ex", "P", "xx", "mQ", "%%"]:
                for lead, trail in (("", ""), (" ", "\n"), ("\t", "")):
                    samples.append((v, suf, lead, trail))
        rnd.shuffle(samples)
        for v, suf, lead, trail in samples[:120]:
            text = lead + repr(float(v)) + suf + trail
            exp = (nat.parseLengthWithUnits(text), nat.unitsToUserUnits(text, 200), nat.getLengthInches(FakeSelf(text), "w"))

            def h(run):
                pu = load()
                t = SymStr(list(lead) + [Atom("n", SymReal.of(Fraction(float(v))), True)] + list(suf) + list(trail))
                return (concrete(pu.parseLengthWithUnits(t)), concrete(pu.unitsToUserUnits(t, SymReal.of(200))), concrete(pu.getLengthInches(FakeSelf(t), "w")))
            got = run_pinned(h, engine.Config(logic="QF_LRA"))

            def same(a, b):
                if isinstance(a, tuple):
                    return all(same(x, y) for x, y in zip(a, b))
                if a is None or b is None or isinstance(a, str) or isinstance(b, str):
                    return a == b
                return approx_py(a, b) or (a == 0 and b == 0)
            assert same(got, exp), "translator validation failed on %r: %r vs %r" % (text, got, exp)
            n += 1
        return n


def tb(x):
    return z3.BoolVal(x) if isinstance(x, bool) else x


def has(x):
    return z3.BoolVal(x is not None)


def zr(x):
    return zreal(x) if x is not None else z3.RealVal(0)


if __name__ == "__main__":
    main(Check())
