"""C10 - Bezier subdivision refines the same curve until every piece is flat.

 S (structure)   plot_utils.subdivideCubicPath (with ink_extensions.bezmisc.beziersplitatt executed
    symbolically) on a node list with symbolic control points; the flatness predicate is a
    nondeterministic stub that may answer 'not flat' at most K times.  On every path the final node
    list is compared with an independently maintained list of dyadic parameter intervals: each final
    piece's four control points must equal the blossom restriction of the original piece to its
    interval (linear identities in the symbolic coordinates), outer handles are untouched, and the stub
    answered 'flat' for every final piece.
 F (flatness)    'flat' from the real predicate on 4 points means both inner control points are closer
    than the flatness to the chord: C09-L1 with n = 4, re-run here.
 T (termination) (i) the second differences of each half produced by the real beziersplitatt are
    D1/4 and (D1+D2)/8 resp. (D1+D2)/8 and D2/4 (linear identities, solver-checked); (ii) the predicate
    answers 'flat' whenever all components of D1, D2 are below flat/2 (paper argument: z3 left it
    'unknown').  Hence the depth is bounded by log4(max|D| / (flat/2)) + 1 (paper composition)."""
import random
from fractions import Fraction

import z3

from pysx import engine, loader, shims
from pysx.harness import CheckBase, main, run_pinned, concrete
from pysx.values import SymReal, zreal
from checks import c09

F = Fraction


def load(stub_pit=None):
    ov = shims.std_overrides(real_tower=True)
    bz = loader.load_dep("ink_extensions.bezmisc", ov)
    ov2 = dict(ov)
    ov2["bezmisc"] = bz
    pu = loader.load_plotink("plot_utils", ov2)
    if stub_pit is not None:
        pu.points_in_tolerance = stub_pit
    return pu, bz


def blossom(P, t1, t2, t3):
    """symmetric trilinear blossom of the cubic with control points P (list of 4 (x, y) of z3 terms / Fractions)"""
    def lerp(a, b, t):
        return (a[0] * (1 - t) + b[0] * t, a[1] * (1 - t) + b[1] * t)
    Q = [lerp(P[i], P[i + 1], t1) for i in range(3)]
    R = [lerp(Q[i], Q[i + 1], t2) for i in range(2)]
    return lerp(R[0], R[1], t3)


def restrict(P, a, b):
    return [blossom(P, a, a, a), blossom(P, a, a, b), blossom(P, a, b, b), blossom(P, b, b, b)]


class Check(CheckBase):
    pid = "C10"
    title = "Bezier subdivision"
    bounds = {"quick": {"S": "node lists of 1..3 nodes, all control points unbounded symbolic reals, at most K = 4 'not flat' answers in total",
                        "F": "4 symbolic points + symbolic flatness > 0", "T": "lemma (i)"},
              "thorough": {"S": "1..3 nodes, K = 7", "F": "as quick", "T": "as quick"}}
    outside = ["binary64 rounding (exact-real model)", "non-finite inputs, flat <= 0", "more than 3 nodes (pieces are processed independently: paper argument)",
               "termination lemma (ii) - all components of D1, D2 below flat/2 imply 'flat' - and the composition into the depth bound log4(max|D|/(flat/2))+1: "
               "paper argument (z3 answered 'unknown' on (ii) within 100 s)"]
    stubs = ["S: points_in_tolerance -> nondeterministic stub limited to K 'not flat' answers"]
    lemmas = ["T(i) second differences of the halves: (D1/4, (D1+D2)/8) and ((D1+D2)/8, D2/4)",
              "F = C09-L1 at n = 4"]

    def functions_encoded(self):
        d = loader.encoded("plot_utils", ["subdivideCubicPath", "points_in_tolerance"])
        d.update(loader.encoded_dep("ink_extensions.bezmisc", ["beziersplitatt", "tpoint"]))
        return d

    def cases(self, tier):
        K = 4 if tier == "quick" else 7
        cs = [{"label": "S/nodes%d/K%d" % (m, K), "kind": "S", "m": m, "K": K, "split_depth": 5 if K > 4 else None} for m in (1, 2, 3)]
        # the same geometry subdivided a second time with another flatness (nothing may be remembered between calls)
        cs.append({"label": "S/nodes2/K2/second-call-other-flatness", "kind": "S", "m": 2, "K": 2, "second": True})
        # end to end with the predicate summarised by its contract F: every final piece is flat (at most K subdivisions)
        KC = 1 if tier == "quick" else 2
        for m in (2,) if tier == "quick" else (2, 3):
            cs.append({"label": "E2C/nodes%d/K%d" % (m, KC), "kind": "E2C", "m": m, "K": KC, "split_depth": 3})
        cs.append({"label": "F/n4", "kind": "F", "n": 4, "split_depth": 4})
        cs.append({"label": "T/i", "kind": "Ti"})
        # T(ii) is not part of either tier: z3 (nlsat) returned 'unknown' after 100 s on the direct formulation and needed
        # 15-40 s per path-feasibility query on the executed one; it stays a paper argument (run it with --only T/ii
        # after adding the case by hand if you want to retry).
        return cs

    def config(self, tier, case):
        if case["kind"] in ("F", "Tii"):
            return engine.Config(logic="QF_NRA", fresh_feas=True, max_decisions=200, ob_rlimit=400_000_000)
        if case["kind"] == "E2C":
            return engine.Config(logic="QF_NRA", fresh_feas=True, max_decisions=200, ob_rlimit=300_000_000, falsify_samples=40)
        return engine.Config(logic="QF_LRA", max_decisions=400, max_paths=1500)      # the unchanged code needs < 100 paths per case

    def expected_reach(self, tier):
        return ["S:no-split", "S:split", "F:True", "F:False", "T:i", "E2C:split", "E2C:no-split"]

    def harness(self, run, case):
        kind = case["kind"]
        if kind == "F":
            pu, _bz = load()
            pts = [(run.real("x%d" % i), run.real("y%d" % i)) for i in range(4)]
            flat = run.real("flat")
            run.assume(flat > 0)
            res = pu.points_in_tolerance(tuple(pts), flat)
            a, b = [c.t for c in pts[0]], [c.t for c in pts[3]]
            closes = [c09.close_term([c.t for c in p], a, b, flat.t) for p in pts[1:3]]
            run.reach("F:%s" % res)
            if res:
                run.prove("F:flat-only-if-both-inner-control-points-are-within-flatness-of-the-chord", z3.And(closes))
            else:
                run.prove("F:not-flat-only-if-some-inner-control-point-is-not-within-flatness", z3.Not(z3.And(closes)))
            return
        if kind == "Ti":
            _pu, bz = load()
            P = [(run.real("x%d" % i), run.real("y%d" % i)) for i in range(4)]
            one, two = bz.beziersplitatt(tuple(P), 0.5)
            run.reach("T:i")

            def D(a, b, c, k):
                return zreal(a[k]) - 2 * zreal(b[k]) + zreal(c[k])
            for k in (0, 1):
                D1, D2 = D(P[0], P[1], P[2], k), D(P[1], P[2], P[3], k)
                run.prove("T(i):second-differences-of-the-halves-shrink-by-4",
                          z3.And(4 * D(one[0], one[1], one[2], k) == D1, 8 * D(one[1], one[2], one[3], k) == D1 + D2,
                                 8 * D(two[0], two[1], two[2], k) == D1 + D2, 4 * D(two[1], two[2], two[3], k) == D2))
                run.prove("T(i):halves-join-on-the-curve-and-keep-the-ends",
                          z3.And(zreal(one[0][k]) == P[0][k].t, zreal(two[3][k]) == P[3][k].t, zreal(one[3][k]) == zreal(two[0][k]),
                                 8 * zreal(one[3][k]) == P[0][k].t + 3 * P[1][k].t + 3 * P[2][k].t + P[3][k].t))
            return
        if kind == "Tii":
            pu, _bz = load()
            P = [(run.real("x%d" % i), run.real("y%d" % i)) for i in range(4)]
            flat = run.real("flat")
            run.assume(flat > 0)
            half = flat.t / 2
            for k in (0, 1):
                for (a, b, c) in ((0, 1, 2), (1, 2, 3)):
                    d = P[a][k].t - 2 * P[b][k].t + P[c][k].t
                    run.assume(z3.And(d < half, -d < half))
            res = pu.points_in_tolerance(tuple(P), flat)
            run.reach("T:ii")
            run.prove("T(ii):small-second-differences-imply-flat", z3.BoolVal(res is True), soft=True)
            return
        # ---- structure ----------------------------------------------------------------------------------------
        m, K = case["m"], case["K"]
        answers = []
        budget = {"left": K}
        contract = kind == "E2C"
        if contract:
            # assume-guarantee: the predicate is its contract F (proved above) for a symbolic flatness > 0; the
            # number of 'not flat' answers stays bounded by K (deeper subdivisions are outside the bound)
            flat_marker = run.real("flat")
            run.assume(flat_marker > 0)
        else:
            flat_marker = object()

        def flat_term(points):
            a, b = [zreal(c) for c in points[0]], [zreal(c) for c in points[3]]
            return z3.And([c09.close_term([zreal(c) for c in q], a, b, flat_marker.t) for q in points[1:3]])

        def stub(points, tolerance):
            assert len(points) == 4 and tolerance is flat_marker
            if contract:
                ans = run.branch(flat_term(points))
                if not ans:
                    if budget["left"] <= 0:
                        raise engine.Infeasible()      # more than K subdivisions: outside the bound
                    budget["left"] -= 1
                answers.append((ans, points))
                return ans
            if budget["left"] > 0 and not run.branch(run.fresh_bool("flat?")):
                budget["left"] -= 1
                answers.append((False, points))
                return False
            answers.append((True, points))
            return True
        pu, _bz = load(stub)
        nodes = [[[run.real("n%d_%d_%s" % (j, h, c)) for c in "xy"] for h in range(3)] for j in range(m)]
        orig = [[[c.t for c in pt] for pt in nd] for nd in nodes]
        first_in, last_out = nodes[0][0], nodes[-1][2]
        if case.get("second"):
            # earlier call: same coordinates, coarse flatness (every piece judged flat at once)
            earlier_marker = object()
            pu.points_in_tolerance = lambda points, tolerance: True
            pu.subdivideCubicPath([[list(pt) for pt in nd] for nd in nodes], earlier_marker)
            pu.points_in_tolerance = stub
        s_p = [[list(pt) for pt in nd] for nd in nodes]
        s_p[0][0] = first_in
        s_p[-1][2] = last_out
        try:
            ret = pu.subdivideCubicPath(s_p, flat_marker)
        except Exception as ex:
            run.prove("S:no-exception", z3.BoolVal(False), info={"raised": repr(ex)[:200]})
            return
        # independent model of 'split at one half and re-examine the first half', driven by the same answers
        pieces = [(j, F(0), F(1)) for j in range(m - 1)]
        i = 0
        for ans, _pts in answers:
            if i >= len(pieces):
                break
            if ans:
                i += 1
            else:
                j, a, b = pieces[i]
                mid = (a + b) / 2
                pieces[i:i + 1] = [(j, a, mid), (j, mid, b)]
        if contract:
            run.reach("E2C:split" if len(s_p) > m else "E2C:no-split")
            for k in range(len(s_p) - 1):
                got = (s_p[k][1], s_p[k][2], s_p[k + 1][0], s_p[k + 1][1])
                run.prove("E2C:every-final-piece-is-flat-within-the-flatness", flat_term(got), info={"piece": k, "pieces": len(s_p) - 1})
            return
        run.reach("S:split" if len(pieces) > m - 1 else "S:no-split")
        run.prove("S:returns-None-and-one-node-per-piece-end", z3.BoolVal(ret is None and len(s_p) == len(pieces) + 1),
                  info={"nodes": len(s_p), "expected": len(pieces) + 1})
        if len(s_p) != len(pieces) + 1:
            return
        run.prove("S:outer-handles-untouched", z3.BoolVal(s_p[0][0] is first_in and s_p[-1][2] is last_out))
        eqs = []
        for k, (j, a, b) in enumerate(pieces):
            P = [(orig[j][1][0], orig[j][1][1]), (orig[j][2][0], orig[j][2][1]), (orig[j + 1][0][0], orig[j + 1][0][1]), (orig[j + 1][1][0], orig[j + 1][1][1])]
            want = restrict(P, a, b)
            got = [s_p[k][1], s_p[k][2], s_p[k + 1][0], s_p[k + 1][1]]
            for g, w in zip(got, want):
                eqs.append(z3.And(zreal(g[0]) == w[0], zreal(g[1]) == w[1]))
        run.prove("S:every-piece-is-the-original-restricted-to-its-dyadic-interval", z3.And(eqs) if eqs else z3.BoolVal(True),
                  info={"intervals": [(j, str(a), str(b)) for j, a, b in pieces]})
        # every final piece was judged flat by the predicate (on exactly its four control points)
        flat_ok = True
        judged = [pts for ans, pts in answers if ans]
        if len(judged) != len(pieces):
            flat_ok = False
        else:
            for k, pts in enumerate(judged):
                got = (s_p[k][1], s_p[k][2], s_p[k + 1][0], s_p[k + 1][1])
                if not all(x is y or (zreal(x[0]).eq(zreal(y[0])) and zreal(x[1]).eq(zreal(y[1]))) for x, y in zip(pts, got)):
                    flat_ok = False
        # a structural lemma (with F it gives 'every final piece is flat'); a failure is lifted to the property itself
        # on the real predicate before it is reported
        run.prove("S:every-final-piece-was-judged-flat", z3.BoolVal(flat_ok), soft=True)

    # ------------------------------------------------------------------------------------------------
    def replay(self, cex):
        pu = loader.native("plot_utils")
        from ink_extensions import bezmisc
        i = cex["inputs"]
        label = cex["case"]
        if label.startswith("F") or label.startswith("T/ii"):
            pts = [(F(i["x%d" % k]), F(i["y%d" % k])) for k in range(4)]
            flat = F(i["flat"])
            res = pu.points_in_tolerance(tuple(pts), flat)
            exp = all(c09.dist_py(p, pts[0], pts[3]) < flat * flat for p in pts[1:3])
            if res != exp:
                return {"points": [[str(c) for c in p] for p in pts], "flat": str(flat), "returned": res, "expected": exp}
            return None
        if label.startswith("T/i"):
            P = [(F(i["x%d" % k]), F(i["y%d" % k])) for k in range(4)]
            one, two = bezmisc.beziersplitatt(tuple(P), F(1, 2))
            w1, w2 = restrict(P, F(0), F(1, 2)), restrict(P, F(1, 2), F(1))
            if [tuple(p) for p in one] != [tuple(p) for p in w1] or [tuple(p) for p in two] != [tuple(p) for p in w2]:
                return {"control_points": [[str(c) for c in p] for p in P], "halves": str((one, two))}
            return None
        # structure: replay the path's answer sequence with a scripted predicate
        case = next(c for c in self.cases("thorough") + self.cases("quick") if c["label"] == label)
        m = case["m"]
        nodes = [[[F(i["n%d_%d_%s" % (j, h, c)]) for c in "xy"] for h in range(3)] for j in range(m)]
        if case["kind"] == "E2C" or cex["obligation"] == "S:every-final-piece-was-judged-flat":
            # the real function with the real predicate: every final piece must be flat (exact distances)
            flats = [F(i["flat"])] if "flat" in i else [F(1), F(1, 2), F(1, 10), F(1, 100), F(5)]
            for flat in flats:
                out = self._native_flat(pu, nodes, m, flat)
                if out:
                    return out
            return None
        decisions = iter(cex.get("decisions", []))
        budget = {"left": case["K"]}
        answers = []

        def scripted(points, tol):
            if budget["left"] > 0 and not next(decisions, True):
                budget["left"] -= 1
                answers.append(False)
                return False
            answers.append(True)
            return True
        pu2 = loader.load_plotink("plot_utils")
        if case.get("second"):
            pu2.points_in_tolerance = lambda points, tol: True
            pu2.subdivideCubicPath([[list(pt) for pt in nd] for nd in nodes], 1000)
        pu2.points_in_tolerance = scripted
        s_p = [[list(pt) for pt in nd] for nd in nodes]
        try:
            pu2.subdivideCubicPath(s_p, 1)
        except Exception as ex:
            return {"nodes": m, "answers": answers, "raised": repr(ex)}
        pieces = [(j, F(0), F(1)) for j in range(m - 1)]
        k = 0
        for ans in answers:
            if k >= len(pieces):
                break
            if ans:
                k += 1
            else:
                j, a, b = pieces[k]
                pieces[k:k + 1] = [(j, a, (a + b) / 2), (j, (a + b) / 2, b)]
        if len(s_p) != len(pieces) + 1:
            return {"nodes_after": len(s_p), "expected": len(pieces) + 1, "answers": answers}
        for k, (j, a, b) in enumerate(pieces):
            P = [tuple(nodes[j][1]), tuple(nodes[j][2]), tuple(nodes[j + 1][0]), tuple(nodes[j + 1][1])]
            want = [tuple(p) for p in restrict(P, a, b)]
            got = [tuple(s_p[k][1]), tuple(s_p[k][2]), tuple(s_p[k + 1][0]), tuple(s_p[k + 1][1])]
            if got != want:
                return {"piece": k, "interval": [j, str(a), str(b)], "got": str(got), "expected": str(want), "answers": answers}
        if s_p[0][0] != nodes[0][0] or s_p[-1][2] != nodes[-1][2]:
            return {"outer_handles_changed": True}
        return None

    @staticmethod
    def _native_flat(pu, nodes, m, flat):
        s_p = [[list(pt) for pt in nd] for nd in nodes]
        try:
            pu.subdivideCubicPath(s_p, flat)
        except Exception as ex:
            return {"nodes": m, "flat": str(flat), "raised": repr(ex)}
        for k in range(len(s_p) - 1):
            P = [tuple(F(c) for c in q) for q in (s_p[k][1], s_p[k][2], s_p[k + 1][0], s_p[k + 1][1])]
            far = [q for q in P[1:3] if not c09.dist_py(q, P[0], P[3]) < flat * flat]
            if far:
                return {"nodes": [[[str(c) for c in pt] for pt in nd] for nd in nodes], "flat": str(flat), "pieces": len(s_p) - 1,
                        "piece_not_flat": k, "control_points": [[str(c) for c in q] for q in P]}
        return None

    def validate(self, tier, seed):
        rnd = random.Random(seed)
        nat = loader.native("plot_utils")
        n_ok = 0
        for _ in range(12):
            m = rnd.randint(1, 3)
            nodes = [[[F(rnd.randint(-9, 9), rnd.randint(1, 2)) for _ in "xy"] for _ in range(3)] for _ in range(m)]
            flat = F(rnd.randint(1, 8), 4)
            exp = [[list(pt) for pt in nd] for nd in nodes]
            nat.subdivideCubicPath(exp, flat)

            def h(run):
                pu, _bz = load()
                sp = [[[SymReal.of(c) for c in pt] for pt in nd] for nd in nodes]
                pu.subdivideCubicPath(sp, SymReal.of(flat))
                return [[[concrete(c) for c in pt] for pt in nd] for nd in sp]
            got = run_pinned(h, engine.Config(logic="QF_NRA", fresh_feas=True))
            assert got == [[[F(c) for c in pt] for pt in nd] for nd in exp], "translator validation failed on %r" % (nodes,)
            n_ok += 1
        return n_ok


if __name__ == "__main__":
    main(Check())
