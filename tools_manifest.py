#!/usr/bin/env python3
"""Regenerate MANIFEST.json from checks/registry.py (single source of truth)."""
import json, sys, os
sys.path.insert(0, os.path.dirname(os.path.abspath(__file__)))
from checks.registry import CHECKS, NOT_APPLICABLE, SEED_NOTES

def main():
    props = [json.loads(l) for l in open(os.path.join(os.path.dirname(__file__), 'properties.jsonl'))]
    ids = [p['id'] for p in props]
    checks = []
    for pid in ids:
        c = CHECKS.get(pid)
        if not c:
            continue
        checks.append({
            "property_id": pid,
            "quick_cmd": f"./check {pid} --tier quick",
            "thorough_cmd": f"./check {pid} --tier thorough",
            "evidence_file": f"/verif/evidence/{pid}.json",
            "replay_cmd_template": f"./check {pid} --replay {{path}}",
            "engine": "pysx",
            "level_claimed": {"category": "model_checking", "text": c["text"], "design_ref": f"DESIGN.md section 3, {pid}"},
            "level_note": c["note"],
            "technique": c["technique"],
        })
    na = []
    for pid in ids:
        if pid not in CHECKS:
            na.append({"property_id": pid, "reason": NOT_APPLICABLE.get(pid, "check not built yet (work in progress; see DESIGN.md section 3 for the planned harness)")})
    m = {
        "version": 1,
        "setup_cmd": "./setup.sh",
        "hooks": {
            "guard": "PLOTINK_VERIF",
            "enable": "no hooks: checks load /repo's source text at run time and rebind module globals in a private copy; nothing in /repo is instrumented",
            "baseline_off_cmd": "cd /repo && /venv/bin/python -m pytest -ra -q -p no:cacheprovider --timeout=900 --continue-on-collection-errors",
            "source_commits": [],
            "add_only": True,
        },
        "engines": [{
            "name": "pysx",
            "path": "/verif/pysx",
            "serves_properties": [c["property_id"] for c in checks],
            "kind_free_text": "symbolic execution of the repository's Python source on operator-overloading z3 terms (decision-prefix DFS over paths), SMT obligations per path (z3 5.1; QF_NRA/NIA/LIA), counterexamples replayed on the unmodified module before reporting",
        }],
        "checks": checks,
        "notes": SEED_NOTES,
        "not_applicable": na,
    }
    json.dump(m, open(os.path.join(os.path.dirname(__file__), 'MANIFEST.json'), 'w'), indent=1)
    print("MANIFEST.json:", len(checks), "checks,", len(na), "not claimed")

if __name__ == '__main__':
    main()
