#!/usr/bin/env python3
"""Rewrite the seeded-changes table in DESIGN.md (between the two marker comments) from seeded/*/meta.json."""
import glob, json, os, re
VERIF = os.path.dirname(os.path.abspath(__file__))
rows = []
for p in sorted(glob.glob(os.path.join(VERIF, 'seeded', '*', 'meta.json'))):
    sid = os.path.basename(os.path.dirname(p))
    m = json.load(open(p))
    det = m.get('detected_by') or {}
    need = [l for l in (m.get('needs_to_manifest') or '').split('\n') if l.strip()]
    what = (need[0] if need else '')[:240].replace('|', '/')
    first = det.get('first_counterexample', '') or ''
    ob = first.split(' ')[0].replace('obligation=', '') if first else ''
    verdict = det.get('verdict', '-')
    if det.get('tier'):
        verdict += ' [%s%s]' % (det['tier'], (', %d s' % det['seconds']) if det.get('seconds') is not None else '')
    if m.get('adjudication'):
        verdict += ' - ' + m['adjudication']
    rows.append('| %s | %s | %s | %s | %s |' % (sid, m.get('round', 1), what, verdict, ob[:80]))
table = '| seed | round | change (first line of the sub-agent\'s note) | outcome [tier, wall time of the check on the changed tree] | first violated obligation |\n|---|---|---|---|---|\n' + '\n'.join(rows) + '\n'
path = os.path.join(VERIF, 'DESIGN.md')
d = open(path).read()
a, b = '<!-- seed-table-begin -->\n', '<!-- seed-table-end -->\n'
if a in d:
    d = d[:d.index(a) + len(a)] + table + d[d.index(b):]
else:
    # first use: replace the old table (from its header line to the blank line after it)
    start = d.index('| seed | change (first line')
    end = d.index('\n\n', start) + 1
    d = d[:start] + a + table + b + d[end:]
open(path, 'w').write(d)
print('seed table:', len(rows), 'rows')
