#!/bin/sh
# usage: tools_seed_confirm.sh <ID> <k> [srcdir]  -- confirm a seeded change independently in a scratch worktree and
# store it as /verif/seeded/<ID>-<k>/ (patch.diff, demo.py, notes.md, meta.json)
ID=$1; K=$2; SRC=${3:-/tmp/seed_out/$ID/$K}
W=/tmp/confirm_$ID_$K_$$
git -C /repo worktree add -q --detach $W HEAD || exit 9
cd $W
export PYTHONPATH=$W      # the demonstration imports the library from the scratch tree, not the installed one
CLEAN_DEMO=$(/venv/bin/python $SRC/demo.py >/dev/null 2>&1; echo $?)
git apply $SRC/patch.diff || { echo "patch does not apply"; cd /; git -C /repo worktree remove --force $W; exit 9; }
TESTS=$(/venv/bin/python -m pytest -q -p no:cacheprovider 2>&1 | tail -1)
MUT_DEMO=$(/venv/bin/python $SRC/demo.py >/dev/null 2>&1; echo $?)
cd /; git -C /repo worktree remove --force $W
echo "$ID-$K clean_demo_exit=$CLEAN_DEMO mutated_demo_exit=$MUT_DEMO tests: $TESTS"
case "$TESTS" in *"33 passed"*) ;; *) echo "REJECT: tests"; exit 1;; esac
[ "$CLEAN_DEMO" = 0 ] && [ "$MUT_DEMO" != 0 ] || { echo "REJECT: demo"; exit 1; }
D=/verif/seeded/$ID-$K; mkdir -p $D
cp $SRC/patch.diff $SRC/demo.py $D/; [ -f $SRC/notes.md ] && cp $SRC/notes.md $D/
/venv/bin/python - "$ID" "$K" "$D" "$TESTS" <<'PY'
import json, sys, os
pid, k, d, tests = sys.argv[1:5]
notes = open(os.path.join(d, 'notes.md')).read() if os.path.exists(os.path.join(d, 'notes.md')) else ''
meta = {"breaks_property": pid, "origin": "independent sub-agent given only the property text and a scratch worktree",
        "needs_to_manifest": notes.strip(),
        "confirmed": {"how": "fresh scratch worktree of /repo HEAD: demo.py exits 0 on the clean tree; after `git apply patch.diff` the pinned test suite gives '%s' and demo.py exits non-zero; worktree removed" % tests.strip()},
        "detected_by": None}
json.dump(meta, open(os.path.join(d, 'meta.json'), 'w'), indent=1)
PY
echo "stored $D"
