#!/bin/sh
# MANIFEST.setup_cmd: build /verif/.venv, an overlay of /venv (the repository's
# interpreter and its dependencies) plus z3-solver and cvc5 from the offline wheelhouse.
set -e
cd "$(dirname "$0")"
V=/verif/.venv
if [ ! -x "$V/bin/python" ] || ! "$V/bin/python" -c "import z3, cvc5, mpmath, packaging, serial" 2>/dev/null; then
    rm -rf "$V"
    /venv/bin/python -m venv "$V"
    SP=$("$V/bin/python" -c "import sysconfig; print(sysconfig.get_paths()['purelib'])")
    printf '%s\n' "import site; site.addsitedir('/venv/lib/python3.12/site-packages')" > "$SP/verif_overlay.pth"
    PIP_NO_INDEX=1 "$V/bin/python" -m pip install -q --no-index --find-links /opt/veriftools/wheels z3-solver cvc5
fi
"$V/bin/python" -c "import z3, cvc5, mpmath, packaging, serial; print('verif venv ok: z3', z3.get_version_string())"
